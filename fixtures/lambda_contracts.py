"""Fixture for C20: contracted callables with lambda conditions and violating calls for each.

The conditions are real source text (the message builder re-reads and re-evaluates them).  Every value used here has
a repr that depends neither on addresses nor on the string hash seed once it went through reprlib (which sorts sets
and dict keys); values whose own repr is address- or hash-dependent are deliberately absent.
"""
# pylint: disable=all
import array
import asyncio
import collections
import math
import reprlib

import functools

import icontract

THRESHOLD = 10


def mk_repr(cfg):
    r = reprlib.Repr()
    for k, v in cfg.items():
        setattr(r, k, v)
    return r


SMALL = {"maxstring": 20, "maxlist": 3, "maxdict": 2, "maxother": 15, "maxtuple": 2, "maxset": 2}
SMALL_REPR = mk_repr(SMALL)


class P:
    def __init__(self, x, y):
        self.x = x
        self.y = y

    def __repr__(self):
        return "P(%r, %r)" % (self.x, self.y)

    def val(self):
        return self.x


def helper(x):
    return x * 2


@icontract.require(lambda x: x > 0, enabled=True)
def f01(x):
    return x


@icontract.require(lambda x, y: x < y, enabled=True)
def f02(x, y):
    return x


@icontract.require(lambda s: len(s) < 10, enabled=True)
def f03(s):
    return s


@icontract.require(lambda lst: len(lst) == 0, enabled=True)
def f04(lst):
    return lst


@icontract.require(lambda d: not d, enabled=True)
def f05(d):
    return d


@icontract.require(lambda st: not st, enabled=True)
def f06(st):
    return st


@icontract.require(lambda fs: not fs, enabled=True)
def f07(fs):
    return fs


@icontract.require(lambda tp: not tp, enabled=True)
def f08(tp):
    return tp


@icontract.require(lambda dq: not dq, enabled=True)
def f09(dq):
    return dq


@icontract.require(lambda arr: not arr, enabled=True)
def f10(arr):
    return arr


@icontract.require(lambda x, cls: not isinstance(x, cls), enabled=True)
def f11(x, cls):
    return x


@icontract.require(lambda x, fn: fn(x) < 0, enabled=True)
def f12(x, fn):
    return x


@icontract.require(lambda x, mod: mod.sqrt(x) < 0, enabled=True)
def f13(x, mod):
    return x


@icontract.require(lambda x, bi: bi(x) < 0, enabled=True)
def f14(x, bi):
    return x


@icontract.require(lambda meth, x: meth() < x, enabled=True)
def f15(meth, x):
    return x


@icontract.require(lambda _ARGS: len(_ARGS) > 3, enabled=True)
def f16(*args):
    return args


@icontract.require(lambda _KWARGS: "zz" in _KWARGS, enabled=True)
def f17(**kwargs):
    return kwargs


@icontract.require(lambda x, _ARGS, _KWARGS: x > len(_ARGS) + len(_KWARGS), enabled=True)
def f18(x, *args, **kwargs):
    return x


@icontract.require(lambda a, b, c, d: a + b + c + d < 0, enabled=True)
def f19(a, b, c, d):
    return a


@icontract.require(lambda s: s == "", a_repr=SMALL_REPR, enabled=True)
def f20(s):
    return s


@icontract.require(lambda lst, d, tp: len(lst) + len(d) + len(tp) == 0, a_repr=SMALL_REPR, enabled=True)
def f21(lst, d, tp):
    return lst


@icontract.require(lambda x: x % 2 == 0, "x must be even", enabled=True)
def f22(x):
    return x


@icontract.require(lambda p: p.x > p.y, enabled=True)
def f23(p):
    return p


@icontract.require(lambda xs: all(x > 0 for x in xs), enabled=True)
def f24(xs):
    return xs


@icontract.require(lambda x, y=5: x > y, enabled=True)
def f25(x, y=5):
    return x


@icontract.ensure(lambda result: result > 0, enabled=True)
def f26(x):
    return x


@icontract.snapshot(lambda lst: lst[:], enabled=True)
@icontract.ensure(lambda OLD, lst: len(lst) == len(OLD.lst) + 2, enabled=True)
def f27(lst, v):
    lst.append(v)
    return None


@icontract.ensure(lambda result, x: result == x + 1, enabled=True)
def f28(x):
    return x


@icontract.invariant(lambda self: self.x > 0, enabled=True)
class K29:
    def __init__(self, x):
        self.x = x

    def __repr__(self):
        return "K29(%r)" % self.x

    def dec(self, by):
        self.x -= by


@icontract.require(lambda x: x > THRESHOLD, enabled=True)
def f30(x):
    return x


@icontract.require(lambda data: len(data) > 5, enabled=True)
def f31(data):
    return data


@icontract.require(lambda b: len(b) < 5, enabled=True)
def f32(b):
    return b


@icontract.require(lambda flag, x: flag == (x > 0), enabled=True)
def f33(flag, x):
    return x


@icontract.require(lambda lo, x, hi: lo < x < hi, enabled=True)
def f34(lo, x, hi):
    return x


@icontract.require(lambda d, k: d[k] > 0, enabled=True)
def f35(d, k):
    return d


@icontract.require(lambda s: s.startswith("a"), enabled=True)
def f36(s):
    return s


@icontract.require(lambda x: (x if x > 0 else -x) > 10, enabled=True)
def f37(x):
    return x


@icontract.require(lambda n: len(range(n)) > 5, enabled=True)
def f38(n):
    return n


@icontract.require(lambda x: x > 0, enabled=True)
async def f39(x):
    return x


@icontract.ensure(lambda result, delay: result > delay + 100, enabled=True)
async def f40(x, delay):
    await asyncio.sleep(delay)
    return x


@icontract.require(lambda a, b, c: a < b < c, enabled=True)
def f41(*, a, b, c):
    return a


@icontract.require(lambda nested: len(nested) == 0, enabled=True)
def f42(nested):
    return nested


@icontract.require(lambda names: "zz" in names, enabled=True)
def f43(names):
    return names


@icontract.require(lambda table, key: key in table, enabled=True)
def f44(table, key):
    return table


@icontract.require(lambda x, helper_fn: helper_fn(x) == x, a_repr=SMALL_REPR, enabled=True)
def f45(x, helper_fn):
    return x


WIDE = {"maxstring": 1000, "maxother": 1000}
WIDE_REPR = mk_repr(WIDE)


@icontract.require(lambda xs: all(len(x) < 5 for x in xs), a_repr=SMALL_REPR, enabled=True)
def f46(xs):
    return xs


@icontract.require(lambda xs, lim: all(len(x) < lim for x in xs), a_repr=WIDE_REPR, enabled=True)
def f47(xs, lim):
    return xs


@icontract.ensure(lambda result: all(k != v for k, v in result.items()), a_repr=SMALL_REPR, enabled=True)
def f48(pairs):
    return dict(pairs)


def cond_named_class(x, cls):
    return not isinstance(x, cls)


def cond_named_callbacks(x, fn, mod, bi, meth):
    return fn(x) + mod.floor(x) + bi(x) + meth() < 0


def cond_named_plain(a, b):
    return a < b


@icontract.require(cond_named_class, enabled=True)
def f49(x, cls):
    return x


@icontract.require(cond_named_callbacks, a_repr=SMALL_REPR, enabled=True)
def f50(x, fn, mod, bi, meth):
    return x


@icontract.require(cond_named_plain, enabled=True)
def f51(a, b, c=3):
    return a


@icontract.invariant(lambda self: len(self.names) < 2, a_repr=SMALL_REPR, enabled=True)
class K52:
    def __init__(self, names):
        self.names = names

    def __repr__(self):
        return "K52(names=%r)" % (self.names,)

    def add(self, name):
        self.names.append(name)


@icontract.invariant(lambda self: self.total() < 10, a_repr=WIDE_REPR, enabled=True)
class K53(icontract.DBC):
    def __init__(self, parts):
        self.parts = parts

    def __repr__(self):
        return "K53(%s)" % ("+".join(str(p) for p in self.parts) * 40)

    def total(self):
        return sum(self.parts)

    def push(self, part):
        self.parts.append(part)


@icontract.require(lambda value: (kind := value.__class__) is str or kind is bytes, enabled=True)
def f57(value):
    return value


@icontract.require(lambda x, table: (getter := table.get) is None or (found := getter(x)) is not None, enabled=True)
def f58(x, table):
    return x


@icontract.require(lambda x: (fn := helper) is None or (mod := math) is None or (bi := abs) is None or fn(x) + mod.floor(x) + bi(x) < 0, enabled=True)
def f59(x):
    return x


def make_limited():
    """A contracted function whose lambda condition reads a closure variable that can be re-bound later."""
    limit = 10

    @icontract.require(lambda x: x < limit, enabled=True)
    def limited(x):
        return x

    def set_limit(value):
        nonlocal limit
        limit = value

    return limited, set_limit


def make_naming_args():
    """Contracts defined dynamically (as a factory or a test would do), violated and dropped again."""

    @icontract.require(lambda _ARGS: len(_ARGS) > 5, enabled=True)
    def dyn_args(*args):
        return args

    return dyn_args


def make_naming_kwargs():
    @icontract.require(lambda _KWARGS: "z" in _KWARGS, enabled=True)
    def dyn_kwargs(**kwargs):
        return kwargs

    return dyn_kwargs


def make_plain():
    @icontract.require(lambda x: x > 0, enabled=True)
    def dyn_plain(x, y=2):
        return x

    return dyn_plain


def make_plain_variadic():
    @icontract.require(lambda x: x > 0, enabled=True)
    def dyn_plain_variadic(x, *args, **kwargs):
        return x

    return dyn_plain_variadic


@icontract.require(lambda x: x [0] > 0, enabled=True)
def f60(x):
    return x


@icontract.require(
    lambda x, y: x
    [0] > y and x [
        1
    ] > y,
    enabled=True,
)
def f61(x, y):
    return x


@icontract.require(lambda x, *, _KWARGS: "z" in _KWARGS or x > 0, enabled=True)
def f66(x, **kwargs):
    return x


@icontract.require(lambda *, _ARGS, y=1: len(_ARGS) > 5 + y, enabled=True)
def f69(*args):
    return args


SHARED_REPR = reprlib.Repr()
SHARED_REPR.maxlist = 4
SHARED_REPR.maxstring = 20


@icontract.require(lambda xs, s: len(xs) < 2 and len(s) < 2, a_repr=SHARED_REPR, enabled=True)
def f67(xs, s):
    return xs


@icontract.require(lambda xs, s: len(xs) < 2 and len(s) < 2, enabled=True)
def f68(xs, s):
    return xs


@icontract.require(lambda x: x > 0, enabled=True)
def f70(x, **kwargs):
    return x


def at_most(x, limit):
    return x <= len(limit)


@icontract.require(functools.partial(at_most, limit=list(range(5000))), enabled=True)
def f71(x):
    return x


@icontract.require(functools.partial(at_most, limit=[helper, P, math, abs]), enabled=True)
def f72(x):
    return x


class Registry:
    """Handlers by key; the repr does not depend on addresses."""

    def __init__(self, **handlers):
        self._handlers = dict(handlers)

    def __repr__(self):
        return "Registry(%d)" % len(self._handlers)

    def __getitem__(self, key):
        return self._handlers[key]

    def get(self, key):
        return self._handlers.get(key)

    def kinds(self):
        return [type(v) for v in self._handlers.values()]


_REG = Registry(a=helper, b=abs)


@icontract.require(lambda k, reg: reg.get(k)(-3) > 0 and reg[k] is not None and type(k) is int, enabled=True)
def f73(k, reg):
    return k


@icontract.require(lambda k, reg: len([reg[x] for x in (k,)]) > 1 and (found := reg.get(k)) is None, enabled=True)
def f74(k, reg):
    return k


def is_positive(x):
    """The value must be strictly positive.

    (A named condition with a docstring and no description given to the decorator.)
    """
    return x > 0


@icontract.require(is_positive, enabled=True)
def f75(x):
    return x


def _passes_everything_on(func):
    """A third-party style decorator: functools.wraps, a wrapper taking (*args, **kwargs)."""

    @functools.wraps(func)
    def wrapper(*args, **kwargs):
        return func(*args, **kwargs)

    return wrapper


@_passes_everything_on
def _few_args(_ARGS):
    return len(_ARGS) > 5


@_passes_everything_on
def _has_z(_KWARGS):
    return "z" in _KWARGS


@icontract.require(_few_args, enabled=True)
def f76(*args):
    return args


@icontract.require(_has_z, enabled=True)
def f77(**kwargs):
    return kwargs


def _long_string():
    return "".join(chr(ord("a") + (i * 7) % 26) for i in range(300))


_P = P(1, 2)

# id, callable name, positional args, keyword args, a_repr config (None = default), unrepresentable parameter names,
# whether the condition names _ARGS / _KWARGS
CASES = [
    {"id": "c01", "fn": "f01", "args": [], "kwargs": {"x": -1}},
    {"id": "c02", "fn": "f02", "args": [], "kwargs": {"x": 5, "y": 3}},
    {"id": "c03", "fn": "f03", "args": [], "kwargs": {"s": _long_string()}},
    {"id": "c04", "fn": "f04", "args": [], "kwargs": {"lst": list(range(100))}},
    {"id": "c05", "fn": "f05", "args": [], "kwargs": {"d": {i: str(i) for i in range(80)}}},
    {"id": "c06", "fn": "f06", "args": [], "kwargs": {"st": set(range(70))}},
    {"id": "c07", "fn": "f07", "args": [], "kwargs": {"fs": frozenset(range(70))}},
    {"id": "c08", "fn": "f08", "args": [], "kwargs": {"tp": tuple(range(60))}},
    {"id": "c09", "fn": "f09", "args": [], "kwargs": {"dq": collections.deque(range(60))}},
    {"id": "c10", "fn": "f10", "args": [], "kwargs": {"arr": array.array("i", range(60))}},
    {"id": "c11", "fn": "f11", "args": [], "kwargs": {"x": 3, "cls": int}, "hidden": ["cls"]},
    {"id": "c12", "fn": "f12", "args": [], "kwargs": {"x": 3, "fn": helper}, "hidden": ["fn"]},
    {"id": "c13", "fn": "f13", "args": [], "kwargs": {"x": 4, "mod": math}, "hidden": ["mod"]},
    {"id": "c14", "fn": "f14", "args": [], "kwargs": {"x": -4, "bi": abs}, "hidden": ["bi"]},
    {"id": "c15", "fn": "f15", "args": [], "kwargs": {"meth": _P.val, "x": 0}, "hidden": ["meth"]},
    {"id": "c16", "fn": "f16", "args": [1, "two"], "kwargs": {}, "names_args": True},
    {"id": "c17", "fn": "f17", "args": [], "kwargs": {"b": 2, "a": 1, "c": 3}, "names_kwargs": True},
    {"id": "c18", "fn": "f18", "args": [1, 7, 8], "kwargs": {"k1": 1, "k2": 2}, "names_args": True, "names_kwargs": True},
    {"id": "c19", "fn": "f19", "args": [], "kwargs": {"a": 1, "b": 2, "c": 3, "d": 4}},
    {"id": "c20", "fn": "f20", "args": [], "kwargs": {"s": _long_string()}, "a_repr": SMALL},
    {"id": "c21", "fn": "f21", "args": [], "kwargs": {"lst": list(range(10)), "d": {1: 1, 2: 2, 3: 3, 4: 4}, "tp": tuple(range(9))}, "a_repr": SMALL},
    {"id": "c22", "fn": "f22", "args": [], "kwargs": {"x": 3}},
    {"id": "c23", "fn": "f23", "args": [], "kwargs": {"p": _P}},
    {"id": "c24", "fn": "f24", "args": [], "kwargs": {"xs": [3, 2, -1, 5]}},
    {"id": "c25", "fn": "f25", "args": [], "kwargs": {"x": 2}},
    {"id": "c26", "fn": "f26", "args": [], "kwargs": {"x": -7}},
    {"id": "c27", "fn": "f27", "args": [], "kwargs": {"lst": [1, 2], "v": 3}, "fresh": {"lst": [1, 2]}},
    {"id": "c28", "fn": "f28", "args": [], "kwargs": {"x": 1}},
    {"id": "c29", "fn": "K29.dec", "args": [], "kwargs": {"by": 5}, "self": ["K29", [3]]},
    {"id": "c30", "fn": "f30", "args": [], "kwargs": {"x": 7}},
    {"id": "c31", "fn": "f31", "args": [], "kwargs": {"data": {"k": ["v" * 40, "w" * 40], "j": [_long_string()]}}},
    {"id": "c32", "fn": "f32", "args": [], "kwargs": {"b": bytes(range(256)) * 3}},
    {"id": "c33", "fn": "f33", "args": [], "kwargs": {"flag": True, "x": -2}},
    {"id": "c34", "fn": "f34", "args": [], "kwargs": {"lo": 1, "x": 10, "hi": 5}},
    {"id": "c35", "fn": "f35", "args": [], "kwargs": {"d": {"a": -1, "b": 2}, "k": "a"}},
    {"id": "c36", "fn": "f36", "args": [], "kwargs": {"s": "banana"}},
    {"id": "c37", "fn": "f37", "args": [], "kwargs": {"x": -4}},
    {"id": "c38", "fn": "f38", "args": [], "kwargs": {"n": 3}},
    {"id": "c39", "fn": "f39", "args": [], "kwargs": {"x": -3}, "async": True},
    {"id": "c40", "fn": "f40", "args": [], "kwargs": {"x": 5, "delay": 2}, "async": True},
    {"id": "c41", "fn": "f41", "args": [], "kwargs": {"a": 3, "b": 2, "c": 1}},
    {"id": "c42", "fn": "f42", "args": [], "kwargs": {"nested": [[[[[[[1, 2, [3, [4, [5]]]]]]]]], list(range(70))]}},
    {"id": "c43", "fn": "f43", "args": [], "kwargs": {"names": {"delta", "alpha", "charlie", "bravo", "echo", "foxtrot", "golf", "hotel"}}},
    {"id": "c44", "fn": "f44", "args": [], "kwargs": {"table": {"q": 1, "b": 2, "m": 3, "a": 4, "z": 5}, "key": "k"}},
    {"id": "c46", "fn": "f46", "args": [], "kwargs": {"xs": ["ab", _long_string(), "cd"]}, "a_repr": SMALL, "all_vars": {"x": _long_string()}},
    {"id": "c47", "fn": "f47", "args": [], "kwargs": {"xs": ["ab", _long_string() + _long_string()], "lim": 10}, "a_repr": WIDE, "all_vars": {"x": _long_string() + _long_string()}},
    {"id": "c48", "fn": "f48", "args": [], "kwargs": {"pairs": [("a", "b"), ("q" * 30, "q" * 30)]}, "a_repr": SMALL, "all_vars": {"k": "q" * 30, "v": "q" * 30}},
    {"id": "c49", "fn": "f49", "args": [], "kwargs": {"x": 3, "cls": int}, "hidden": ["cls"]},
    {"id": "c50", "fn": "f50", "args": [], "kwargs": {"x": 3, "fn": helper, "mod": math, "bi": abs, "meth": _P.val}, "a_repr": SMALL, "hidden": ["fn", "mod", "bi", "meth"]},
    {"id": "c51", "fn": "f51", "args": [], "kwargs": {"a": 5, "b": 2}},
    {"id": "c52", "fn": "K52.add", "args": [], "kwargs": {"name": "zzzzzzzzzzzzzzzzzzzzzzzzz"}, "self": ["K52", [["first-name-which-is-long"]]], "a_repr": SMALL},
    {"id": "c53", "fn": "K53.push", "args": [], "kwargs": {"part": 9}, "self": ["K53", [[1, 2]]], "a_repr": WIDE},
    {"id": "c54", "fn": "f03", "args": [], "kwargs": {"s": "\\" * 150 + "\n" * 60}},
    {"id": "c55", "fn": "f20", "args": [], "kwargs": {"s": "\\" * 9 + "\n\t"}, "a_repr": SMALL},
    {"id": "c56", "fn": "f46", "args": [], "kwargs": {"xs": ["ab", "\\\n" * 4]}, "a_repr": SMALL, "all_vars": {"x": "\\\n" * 4}},
    {"id": "c57", "fn": "f57", "args": [], "kwargs": {"value": 3}, "hidden_exprs": ["kind"]},
    {"id": "c58", "fn": "f58", "args": [], "kwargs": {"x": 3, "table": {1: 2}}, "hidden_exprs": ["getter"]},
    {"id": "c59", "fn": "f59", "args": [], "kwargs": {"x": 3}, "hidden_exprs": ["fn", "mod", "bi"]},
    {"id": "c60", "fn": "f60", "args": [], "kwargs": {"x": [0, 1]}},
    {"id": "c61", "fn": "f61", "args": [], "kwargs": {"x": [3, 1], "y": 2}},
    {"id": "c62", "factory": "make_naming_args", "fn": "make_naming_args", "args": [1, 2], "kwargs": {}, "names_args": True},
    {"id": "c63", "factory": "make_naming_kwargs", "fn": "make_naming_kwargs", "args": [], "kwargs": {"a": 1}, "names_kwargs": True},
    {"id": "c64", "factory": "make_plain", "fn": "make_plain", "args": [-1], "kwargs": {}},
    {"id": "c65", "factory": "make_plain_variadic", "fn": "make_plain_variadic", "args": [-1, 5], "kwargs": {"k": 1}},
    {"id": "c66", "fn": "f66", "args": [], "kwargs": {"x": -1, "a": 1}, "names_kwargs": True},
    {"id": "c69", "fn": "f69", "args": [1, 2], "kwargs": {}, "names_args": True},
    {"id": "c70", "fn": "f70", "args": [], "kwargs": dict([("x", -1)] + [("k%02d" % i, i) for i in range(40)])},
    {"id": "c71", "fn": "f71", "args": [], "kwargs": {"x": 6000}, "cond_text": "at_most"},
    {"id": "c72", "fn": "f72", "args": [], "kwargs": {"x": 9}, "cond_text": "at_most"},
    {"id": "c73", "fn": "f73", "args": [], "kwargs": {"k": "a", "reg": _REG}, "hidden_exprs": ["reg.get(k)", "reg[k]", "type(k)", "reg.get", "reg.get(k)(-3)"][:3]},
    {"id": "c74", "fn": "f74", "args": [], "kwargs": {"k": "b", "reg": _REG}, "hidden_exprs": ["reg[x]", "found", "reg.get(k)"]},
    {"id": "c75", "fn": "f75", "args": [], "kwargs": {"x": -1}, "cond_text": "is_positive"},
    {"id": "c76", "fn": "f76", "args": [1, 2, 3], "kwargs": {}, "names_args": True},
    {"id": "c77", "fn": "f77", "args": [], "kwargs": {"a": 1, "debug": True}, "names_kwargs": True},
    {"id": "c45", "fn": "f45", "args": [], "kwargs": {"x": 123456789012345678901234567890, "helper_fn": helper}, "a_repr": SMALL, "hidden": ["helper_fn"]},
]
