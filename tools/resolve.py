#!/venv/bin/python
"""resolve.py <file under /tmp/rb/new/icontract> : replace the FIRST conflict block by the text read from stdin (use THEIRS/MINE to paste a side)."""
import re, sys
p = '/tmp/rb/new/icontract/' + sys.argv[1]
s = open(p).read()
m = re.search(r"<<<<<<< [^\n]*\n(.*?)=======\n(.*?)>>>>>>> [^\n]*\n", s, re.S)
if not m:
    sys.exit("no conflict in " + p)
text = sys.stdin.read().replace("@@MINE@@", m.group(1)).replace("@@THEIRS@@", m.group(2))
open(p, 'w').write(s[:m.start()] + text + s[m.end():])
