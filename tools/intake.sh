#!/bin/sh
# intake.sh <PID> <A|B> : verify a sub-agent's mutant in its scratch worktree and copy it to /verif/seeded/<PID>-<x>/
set -u
P=$1; X=$2; WT=${WTPREFIX:-/tmp/wt}-$P; OUT=$WT/out; DST=/verif/seeded/$P-${SUFFIX:-}$X
cd $WT || exit 2
git checkout -q -- icontract
echo "--- demo on clean tree"; PYTHONPATH=$WT /venv/bin/python $OUT/demo$X.py > /tmp/intake.clean 2>&1; C=$?; tail -2 /tmp/intake.clean
git apply $OUT/mutant$X.diff || { echo "PATCH DOES NOT APPLY"; exit 1; }
echo "--- baseline with mutant"; /verif/tools/baseline.py $WT; B=$?
echo "--- demo with mutant"; PYTHONPATH=$WT /venv/bin/python $OUT/demo$X.py > /tmp/intake.mut 2>&1; M=$?; tail -2 /tmp/intake.mut
git checkout -q -- icontract
echo "clean_exit=$C mutant_exit=$M baseline_exit=$B"
if [ $C -eq 0 ] && [ $M -ne 0 ] && [ $B -eq 0 ]; then
  mkdir -p $DST; cp $OUT/mutant$X.diff $DST/patch.diff; cp $OUT/demo$X.py $DST/demo.py; cp $OUT/notes.md $DST/notes.md
  echo "ACCEPTED -> $DST"
else
  echo "REJECTED"
fi
