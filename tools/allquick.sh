#!/bin/sh
# run every quick check on the unchanged tree with the given seeds (default 0); print one line per check
cd /verif
for s in ${@:-0}; do
  for p in C03 C10 C11 C12 C13 C15 C17 C18 C20; do
    out=$(VERIF_SEED=$s ./check $p quick 2>&1); code=$?
    echo "seed=$s $p exit=$code $(echo "$out" | tail -1 | cut -c1-140)"
    if [ $code -ne 0 ]; then echo "$out" | grep -i "violation\|error\|unreproduced" | head -5 | cut -c1-300; fi
  done
done
