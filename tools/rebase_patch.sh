#!/bin/sh
# rebase_patch.sh <patch file>: find the newest /repo commit on which the patch applies, apply it there, 3-way merge every changed
# file with /repo HEAD (git merge-file) and rewrite the patch as a diff against HEAD.  Exit 0 = rewritten, 1 = conflicts (left in /tmp/rb/new).
P=$(readlink -f "$1")
rm -rf /tmp/rb && mkdir -p /tmp/rb && cd /tmp/rb || exit 2
for c in $(git -C /repo log --format=%h | head -30); do
  rm -rf base && mkdir base && git -C /repo archive $c icontract | tar -x -C base
  if patch -p1 -s --dry-run -d base -i "$P" >/dev/null 2>&1; then BASE=$c; break; fi
done
[ -z "$BASE" ] && { echo "no base commit found for $P"; exit 2; }
rm -rf patched new cur && mkdir patched new cur
git -C /repo archive $BASE icontract | tar -x -C patched && patch -p1 -s -d patched -i "$P" || exit 2
find patched -name "*.orig" -delete
git -C /repo archive HEAD icontract | tar -x -C cur
git -C /repo archive HEAD icontract | tar -x -C new
# textual pre-transforms of later fix commits that touch lines many patches quote (applied to both sides of the merge)
for d in base patched; do
  sed -i 's/^\( *\)if func.__name__ == "__setattr__"$/\1if is_setattr/' $d/icontract/_checkers.py
  sed -i 's/^\( *\)if inspect.iscoroutine(check):$/\1if inspect.isawaitable(check):/; s/^\( *\)if inspect.iscoroutine(captured):$/\1if inspect.isawaitable(captured):/' $d/icontract/_checkers.py
done
CONF=0
for f in $(cd patched && find icontract -name "*.py"); do
  if ! cmp -s base/$f patched/$f; then
    git merge-file new/$f base/$f patched/$f || CONF=1
  fi
done
if [ $CONF -ne 0 ]; then echo "CONFLICT $P (base $BASE)"; exit 1; fi
/venv/bin/python -c "
import ast,sys,glob
for f in glob.glob('/tmp/rb/new/icontract/*.py'): ast.parse(open(f).read())
" || { echo "SYNTAX $P"; exit 1; }
mkdir -p a b && rm -rf a/icontract b/icontract && cp -r cur/icontract a/ && cp -r new/icontract b/
diff -ru a/icontract b/icontract > "$P.new"
if [ ! -s "$P.new" ]; then echo "EMPTY $P"; rm -f "$P.new"; exit 1; fi
mv "$P.new" "$P"; echo "REBASED $P (base $BASE)"
