#!/venv/bin/python
"""minimize.py <PID> <index> <classifier substring> <out.json>: shrink one violation class of one run index and write a replay file."""
import sys, os, json, importlib
sys.path.insert(0, os.environ.get('VERIF_REPO', '/repo')); sys.path.insert(0, '/verif/sim')
import gen, shrink
sys.setrecursionlimit(6000)
pid, i, sub, out = sys.argv[1], int(sys.argv[2]), sys.argv[3], sys.argv[4]
mod = importlib.import_module('props.' + pid.lower())
scn = mod.generate(gen.rng_for(0, pid, i), 'quick')
res = mod.execute(scn)
vs = [v for v in res['violations'] if sub in v['classifier'] or sub in v['rule']]
assert vs, [v['classifier'] for v in res['violations']]
v = vs[0]; cls = (v['rule'], v['classifier'])
scn = v.get('scenario') or scn
def same(c):
    return cls in {(x['rule'], x['classifier']) for x in mod.execute(c).get('violations') or []}
small, used = shrink.shrink(scn, same, 600)
r2 = mod.execute(small)
vv = [x for x in r2['violations'] if (x['rule'], x['classifier']) == cls][0]
json.dump({"property": pid, "seed": 0, "index": i, "violation_class": list(cls), "violation": {k: x for k, x in vv.items() if k != 'scenario'}, "digest": r2.get('digest'), "shrink_executions": used, "scenario": small}, open(out, 'w'), indent=1, sort_keys=True, default=str)
print(cls, used, json.dumps(small)[:1500])
