#!/venv/bin/python
"""List violation classes a property check finds over N runs (in-process, development aid)."""
import sys, os, json, importlib
sys.path.insert(0, '/repo' if 'VERIF_REPO_PATH' not in os.environ else os.environ['VERIF_REPO_PATH']); sys.path.insert(0, '/verif/sim')
import gen
sys.setrecursionlimit(6000)
from collections import Counter
pid = sys.argv[1]; n = int(sys.argv[2]); show = sys.argv[3] if len(sys.argv) > 3 else None
mod = importlib.import_module('props.' + pid.lower())
c = Counter(); ex = {}
for i in range(n):
    scn = mod.generate(gen.rng_for(0, pid, i), 'quick')
    res = mod.execute(scn)
    for v in res['violations']:
        k = (v['rule'], v['classifier']); c[k] += 1; ex.setdefault(k, (i, v))
for k, v in sorted(c.items()):
    print(v, k, 'e.g. run', ex[k][0])
    if show and show in k[1]:
        print('   ', json.dumps(ex[k][1].get('detail'), default=str)[:1200])
