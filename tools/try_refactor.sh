#!/bin/sh
# try_refactor.sh <diff> : apply a behaviour-preserving refactoring to a scratch copy of /repo and run every quick check (all must exit 0)
D=$1; T=$(mktemp -d /tmp/verif-refactor-XXXX); cp -r /repo/icontract $T/
if ! (cd $T && patch -p1 -s -i $D) ; then echo "$D: PATCH DOES NOT APPLY"; rm -rf $T; exit 3; fi
bad=0
for p in C03 C10 C11 C12 C13 C15 C17 C18 C20; do
  out=$(cd /verif && VERIF_REPO=$T VERIF_NO_EVIDENCE=1 ./check $p quick 2>&1); code=$?
  if [ $code -ne 0 ]; then bad=1; echo "$D: $p exit=$code"; echo "$out" | grep -i "^violation\|HARNESS\|UNREPRO" | head -4 | cut -c1-400; fi
done
[ $bad -eq 0 ] && echo "$D: all 9 checks exit 0"
rm -rf $T
