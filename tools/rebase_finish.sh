#!/bin/sh
# rebase_finish.sh <patch file>: after resolving the conflicts in /tmp/rb/new by hand, rewrite the patch as a diff against /repo HEAD
P=$(readlink -f "$1"); cd /tmp/rb || exit 2
grep -n "<<<<<<<\|>>>>>>>" new/icontract/*.py && { echo "unresolved"; exit 1; }
/venv/bin/python -c "
import ast,glob
for f in glob.glob('/tmp/rb/new/icontract/*.py'): ast.parse(open(f).read())
" || exit 1
mkdir -p a b && rm -rf a/icontract b/icontract && cp -r cur/icontract a/ && cp -r new/icontract b/
diff -ru a/icontract b/icontract > "$P"; echo "REBASED (by hand) $P"
