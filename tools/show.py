#!/venv/bin/python
"""show.py <PID> <index> : print the scenario, violations and log of one run index (development aid)."""
import sys, os, json, importlib
sys.path.insert(0, '/repo'); sys.path.insert(0, '/verif/sim')
import gen
sys.setrecursionlimit(6000)
pid = sys.argv[1]; i = int(sys.argv[2])
mod = importlib.import_module('props.' + pid.lower())
scn = mod.generate(gen.rng_for(0, pid, i), 'quick')
print(json.dumps(scn)[:3000])
res = mod.execute(scn)
for v in res['violations']:
    print(v['rule'], v['classifier'], json.dumps(v.get('detail'), default=str)[:700])
if len(sys.argv) > 3 and hasattr(mod, '_execute'):
    run, _ = mod._execute(scn)
    for e in run.log: print(e)
