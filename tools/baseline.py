#!/venv/bin/python
"""Run the pinned baseline in a given checkout (default /repo) and compare with BASELINE.json's stable_pass."""
import json, os, subprocess, sys, tempfile
import xml.etree.ElementTree as ET

repo = sys.argv[1] if len(sys.argv) > 1 else "/repo"
base = json.load(open("/root/.vp/BASELINE.json"))
want = set(base["stable_pass"])
fd, path = tempfile.mkstemp(suffix=".xml")
os.close(fd)
env = dict(os.environ, PYTHONPATH=repo)
env.pop("ICONTRACT_SLOW", None)
p = subprocess.run(["/venv/bin/python", "-m", "pytest", "-ra", "-q", "-p", "no:cacheprovider", "--timeout=900", "--continue-on-collection-errors", "--junitxml=" + path],
                   cwd=repo, env=env, stdout=subprocess.PIPE, stderr=subprocess.STDOUT)
got = set()
for tc in ET.parse(path).getroot().iter("testcase"):
    if not any(c.tag in ("failure", "error", "skipped") for c in tc):
        got.add("%s::%s" % (tc.get("classname"), tc.get("name")))
os.unlink(path)
missing = sorted(want - got)
print("baseline: %d stable_pass expected, %d passing now, %d of the expected are not passing" % (len(want), len(got), len(missing)))
for m in missing[:20]:
    print("  NOT PASSING:", m)
sys.exit(1 if missing else 0)
