import functools, icontract, asyncio
def cond(x, _tag=0): return x > _tag
class Obj:
    def __call__(self, x): return x > 0
class AObj:
    async def __call__(self, x): return x > 0
@icontract.require(functools.partial(cond, _tag=1))
def f(x): return x
@icontract.require(Obj())
def g(x): return x
@icontract.require(AObj())
async def h(x): return x
@icontract.ensure(functools.partial(lambda result, x, k: result > k, k=5))
def p(x): return x
for fn in (f, g, p):
    try: fn(0); print(fn.__name__, "no violation")
    except icontract.ViolationError as e: print(fn.__name__, "violation:", str(e).replace("\n", " | ")[:200])
    except Exception as e: print(fn.__name__, "ERR", type(e).__name__, e)
try: asyncio.run(h(0)); print("h no violation")
except icontract.ViolationError as e: print("h violation", str(e).replace("\n"," | ")[:200])
except Exception as e: print("h ERR", type(e).__name__, e)
print(f(5), g(5), asyncio.run(h(5)))
