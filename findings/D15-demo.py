import icontract

class A(icontract.DBC):
    def f(self):
        return "A.f"

@icontract.invariant(lambda self: True)
class B(A):          # has an invariant, does not override f
    pass

class C(A):          # overrides f and strengthens its postcondition
    @icontract.ensure(lambda result: result == "C.f")
    def f(self):
        return "C.f"

class D(B, C):       # Python's MRO: D, B, C, A -> D().f is C.f
    pass

print("MRO:", [k.__name__ for k in D.__mro__])
print("D().f() ->", D().f(), " (plain Python: C.f)")
print("'f' in B.__dict__:", 'f' in B.__dict__)

class E(D):
    def f(self):
        return "E.f"   # violates C.f's postcondition, which E inherits (E is-a C)

try:
    print("E().f() ->", E().f(), " (C.f's postcondition was not inherited)")
except icontract.ViolationError:
    print("E().f() violates C.f's postcondition (right)")
