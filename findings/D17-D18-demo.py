import functools, icontract
# leak 1
class A(icontract.DBC):
    def __init__(self): self.x = 1
    def get(self): return self.x
class B(A):
    pass
def pos(self): return self.x > 0
def big(self): return self.x > 100
icontract.invariant(pos)(A)
icontract.invariant(big)(B)
try:
    A().get(); print("leak1: A unaffected (right)")
except icontract.ViolationError: print("leak1: A got B's invariant")
print("  A.__invariants__ is B.__invariants__:", A.__invariants__ is B.__invariants__, len(A.__invariants__))

# leak 2
def log_calls(f):
    @functools.wraps(f)
    def w(*a, **k): return f(*a, **k)
    return w
class Base(icontract.DBC):
    @icontract.require(lambda x: x > 0)
    @icontract.ensure(lambda result: result > 0)
    def f(self, x): return x
class Other(icontract.DBC):
    @icontract.require(lambda x: x < 0)
    def f(self, x): return -x
ck = icontract._checkers.find_checker(Base.f)
print("before:", len(ck.__preconditions__), len(ck.__postconditions__))
class Sub(Base, Other):
    f = log_calls(Base.f)
print("after leak2:", len(ck.__preconditions__), len(ck.__postconditions__))
try:
    Base().f(-5); print("leak2: Base().f(-5) accepted -> Base's precondition weakened by defining Sub")
except icontract.ViolationError: print("leak2: Base().f(-5) rejected (right)")

# leak 3
class P(icontract.DBC):
    @icontract.require(lambda x: x > 0)
    def g(self, x): return x
class Q(icontract.DBC):
    @icontract.require(lambda x: x < 0)
    def g(self, x): return x
ckp = icontract._checkers.find_checker(P.g)
print("before:", len(ckp.__preconditions__))
class R(Q):
    g = P.g      # borrowed from a class that is not a base
print("after leak3:", len(ckp.__preconditions__))
try:
    P().g(-5); print("leak3: P().g(-5) accepted -> P's precondition weakened by defining R")
except icontract.ViolationError: print("leak3: P().g(-5) rejected (right)")
