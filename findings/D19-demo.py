"""D19 (open): a contract class that borrows a contracted function from a class WITHOUT the metaclass (or from a module)
has the contracts of its bases collapsed into that function's checker in place - the lending class changes."""
import icontract


class Plain:  # no DBC / DBCMeta
    @icontract.require(lambda x: x > 0)
    def g(self, x):
        return x


class Q(icontract.DBC):
    @icontract.require(lambda x: x < 0)
    def g(self, x):
        return x


try:
    Plain().g(-5)
    print("BEFORE: accepted (unexpected)")
except icontract.ViolationError:
    print("BEFORE: Plain().g(-5) rejected (right)")


class R(Q):
    g = Plain.g  # borrowed


try:
    Plain().g(-5)
    print("AFTER: Plain().g(-5) accepted -> defining R weakened the precondition of Plain.g")
except icontract.ViolationError:
    print("AFTER: Plain().g(-5) rejected (right)")
