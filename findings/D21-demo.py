"""D21 (open): a task created inside the body of a public method of an object with invariants copies the context WITH the object's
in-progress mark and keeps it for its whole life: its calls on that object skip the invariants long after the method has returned."""
import asyncio

import icontract


@icontract.invariant(lambda self: self.n >= 0)
class Counter(icontract.DBC):
    def __init__(self) -> None:
        self.n = 0
        self.task = None

    async def start(self) -> None:
        # fire-and-forget from a method body (create_task / gather / TaskGroup all copy the current context)
        self.task = asyncio.get_running_loop().create_task(self.later())

    async def dec(self) -> int:
        self.n -= 1
        return self.n

    async def later(self) -> str:
        await asyncio.sleep(0)  # start() has long returned
        try:
            await self.dec()  # n == -1: the invariant is violated
        except icontract.ViolationError:
            return "child task: violation reported (right)"
        return "child task: dec() drove n to %d without any ViolationError" % self.n


async def main() -> None:
    c = Counter()
    await c.start()
    print(await c.task)
    c.n = 0
    try:
        await c.dec()
        print("same call from the parent task: not reported (unexpected)")
    except icontract.ViolationError:
        print("same call from the parent task: violation reported (right)")


asyncio.run(main())
