"""Driver: /verif/check <ID> quick|thorough | <ID> --replay <file> | selftest-determinism | selftest-mutants."""
import concurrent.futures
import faulthandler
import importlib
import json
import multiprocessing
import os
import subprocess
import sys
import time
import traceback

HERE = os.path.dirname(os.path.abspath(__file__))
VERIF = os.path.dirname(HERE)
sys.path.insert(0, HERE)

import icontract  # noqa: E402

if not os.path.abspath(icontract.__file__).startswith(os.environ.get("VERIF_REPO", "/repo") + os.sep):
    sys.stdout.write("HARNESS-ERROR icontract imported from %s, not from the repository under test\n" % icontract.__file__)
    sys.exit(2)

import core  # noqa: E402
import gen  # noqa: E402
import shrink  # noqa: E402

sys.setrecursionlimit(6000)

PROPS = {
    "C03": "props.c03",
    "C10": "props.c10",
    "C11": "props.c11",
    "C12": "props.c12",
    "C13": "props.c13",
    "C15": "props.c15",
    "C17": "props.c17",
    "C18": "props.c18",
    "C20": "props.c20",
}
WORKERS = int(os.environ.get("VERIF_WORKERS", "16"))
COMPONENTS = {
    "real": [
        "icontract (whole package, imported from /repo working tree)",
        "contextvars",
        "asyncio Task/Future/gather/cancellation",
        "threading.Thread",
        "reprlib/inspect/asttokens",
    ],
    "stub": [
        "event-loop selector and clock (SimLoop: virtual time)",
        "thread scheduling decisions (baton; the threads are real)",
        "the application (generated, instrumented conditions/captures/error factories/bodies)",
        "asyncio.to_thread executor (baton thread running ctx.run on a context copied from the parent)",
    ],
}


def load(pid):
    return importlib.import_module(PROPS[pid])


def known_findings():
    p = os.path.join(VERIF, "known_findings.json")
    if not os.path.exists(p):
        return []
    with open(p) as f:
        return json.load(f).get("findings", [])


def match_known(pid, v, kf):
    for k in kf:
        if k.get("status") != "open" or k.get("property") != pid:
            continue
        rules = k.get("rule") if isinstance(k.get("rule"), list) else [k.get("rule")]
        if v["rule"] in rules and k.get("classifier") == v["classifier"]:
            return k
        if v["rule"] in rules and k.get("classifier_endswith") and v["classifier"].endswith(k["classifier_endswith"]):
            return k
    return None


# -------------------------------------------------------------------------------------------------
# workers
# -------------------------------------------------------------------------------------------------
def work(args):
    pid, seed, tier, start, n = args
    faulthandler.dump_traceback_later(900, exit=True)
    mod = load(pid)
    agg = {
        "evaluations": 0,
        "violations": [],
        "nontrivial": set(),
        "digests": set(),
        "switch": set(),
        "states": set(),
        "faults": {},
        "sums": {},
        "samples": [],
        "skipped": 0,
        "known_hits": {},
        "errors": [],
        "probes": {},
    }
    for i in range(start, start + n):
        r = gen.rng_for(seed, pid, i)
        try:
            scn = mod.generate(r, tier)
            res = mod.execute(scn)
        except core.HarnessError as e:
            agg["errors"].append((i, "HarnessError: %s" % e))
            continue
        except Exception as e:  # pylint: disable=broad-except
            agg["errors"].append((i, "%s: %s\n%s" % (type(e).__name__, e, traceback.format_exc()[-1500:])))
            continue
        agg["evaluations"] += res.get("evaluations", 1)
        if res.get("skipped"):
            agg["skipped"] += 1
        for v in res.get("violations") or []:
            if len(agg["violations"]) < 40:
                agg["violations"].append((i, v))
        nt = res.get("nontrivial")
        if nt is not None:
            if isinstance(nt, (list, set, tuple)):
                agg["nontrivial"].update(nt)
            else:
                agg["nontrivial"].add(nt)
        if res.get("digest"):
            agg["digests"].add(res["digest"])
        st = res.get("stats") or {}
        for k, v in st.items():
            if k == "faults":
                for fk, fv in v.items():
                    agg["faults"][fk] = agg["faults"].get(fk, 0) + fv
            elif k == "switch_sig":
                agg["switch"].add(v)
            elif k == "switch_sigs":
                agg["switch"].update(v)
            elif k == "state_sigs":
                agg["states"].update(v)
            elif k == "probes":
                for fk, fv in v.items():
                    agg["probes"][fk] = agg["probes"].get(fk, 0) + fv
            elif isinstance(v, (int, float)):
                agg["sums"][k] = agg["sums"].get(k, 0) + v
        if len(agg["samples"]) < 1 and i == start:
            agg["samples"].append({"index": i, "scenario": scn, "result": {k: res.get(k) for k in ("digest", "engine")}})
    faulthandler.cancel_dump_traceback_later()
    return agg


def merge(total, agg):
    total["evaluations"] += agg["evaluations"]
    total["skipped"] += agg["skipped"]
    total["violations"].extend(agg["violations"])
    total["nontrivial"].update(agg["nontrivial"])
    total["digests"].update(agg["digests"])
    total["switch"].update(agg["switch"])
    total["states"].update(agg["states"])
    total["errors"].extend(agg["errors"])
    for k, v in agg["faults"].items():
        total["faults"][k] = total["faults"].get(k, 0) + v
    for k, v in agg["probes"].items():
        total["probes"][k] = total["probes"].get(k, 0) + v
    for k, v in agg["sums"].items():
        total["sums"][k] = total["sums"].get(k, 0) + v
    if len(total["samples"]) < 3:
        total["samples"].extend(agg["samples"][: 3 - len(total["samples"])])


def run_batch(pid, seed, tier, runs, chunk, budget_s):
    total = {
        "evaluations": 0,
        "violations": [],
        "nontrivial": set(),
        "digests": set(),
        "switch": set(),
        "states": set(),
        "faults": {},
        "sums": {},
        "samples": [],
        "skipped": 0,
        "errors": [],
        "probes": {},
    }
    t0 = time.time()
    jobs = [(pid, seed, tier, s, min(chunk, runs - s)) for s in range(0, runs, chunk)]
    ctx = multiprocessing.get_context("fork")
    scheduled = 0
    with concurrent.futures.ProcessPoolExecutor(max_workers=WORKERS, mp_context=ctx) as ex:
        pending = set()
        it = iter(jobs)
        exhausted = False
        while True:
            while not exhausted and len(pending) < WORKERS * 2:
                if time.time() - t0 > budget_s:
                    exhausted = True
                    break
                try:
                    j = next(it)
                except StopIteration:
                    exhausted = True
                    break
                pending.add(ex.submit(work, j))
                scheduled += j[4]
            if not pending:
                break
            done, pending = concurrent.futures.wait(pending, timeout=1200, return_when=concurrent.futures.FIRST_COMPLETED)
            if not done:
                raise core.HarnessError("workers made no progress for 1200 s")
            for d in done:
                merge(total, d.result())
    total["scheduled"] = scheduled
    total["wall_s"] = time.time() - t0
    return total


# -------------------------------------------------------------------------------------------------
# violations: shrink, replay, report
# -------------------------------------------------------------------------------------------------
def vclass(v):
    return (v["rule"], v["classifier"])


def execute_classes(mod, scn):
    res = mod.execute(scn)
    return {vclass(v) for v in res.get("violations") or []}, res


def minimise(mod, scn, cls, budget=400):
    def same(c):
        classes, _ = execute_classes(mod, c)
        return cls in classes

    return shrink.shrink(scn, same, budget=budget)


def fresh_replay(pid, path):
    """Replay in a fresh interpreter; returns (exit code, stdout)."""
    env = dict(os.environ)
    env["PYTHONHASHSEED"] = "0"
    p = subprocess.run(
        [sys.executable, os.path.join(HERE, "run.py"), pid, "--replay", path],
        stdout=subprocess.PIPE,
        stderr=subprocess.STDOUT,
        env=env,
        timeout=600,
    )
    return p.returncode, p.stdout.decode(errors="replace")


def do_replay(pid, path):
    mod = load(pid)
    if hasattr(mod, "replay"):
        return mod.replay(path)
    with open(path) as f:
        rep = json.load(f)
    scn = rep["scenario"]
    classes, res = execute_classes(mod, scn)
    want = tuple(rep.get("violation_class") or ())
    sys.stdout.write("REPLAY property=%s file=%s digest=%s expected_digest=%s\n" % (pid, path, res.get("digest"), rep.get("digest")))
    for v in res.get("violations") or []:
        sys.stdout.write("  %s %s %s\n" % (v["rule"], v["classifier"], json.dumps(v.get("detail"), default=str)[:600]))
    if classes and (not want or want in classes):
        sys.stdout.write("CLASS-REPRODUCED %s\n" % json.dumps(list(want)))
        sys.stdout.write("VIOLATION property=%s replay=%s\n" % (pid, path))
        return 1
    if classes:
        sys.stdout.write("VIOLATION property=%s replay=%s (class differs from the recorded one)\n" % (pid, path))
        return 1
    sys.stdout.write("replay: no violation\n")
    return 0


def write_evidence(pid, tier, seed, mod, total, n_viol, kf_hits, extra_assumptions=()):
    wall = total["wall_s"]
    ev = max(1, total["evaluations"])
    cov = {
        "evaluations": total["evaluations"],
        "distinct_nontrivial": len(total["nontrivial"]),
        "rule": mod.RULE_TEXT,
        "samples": total["samples"] or [{"note": "no sample recorded"}],
        "runs_per_hour": int(total["evaluations"] * 3600 / max(wall, 1e-6)),
        "seeds_per_hour": int(total["evaluations"] * 3600 / max(wall, 1e-6)),
        "distinct_event_logs": len(total["digests"]),
        "distinct_interleavings_actor_switch_sequences": len(total["switch"]),
        "distinct_states_marker_x_shadow_stack_shape": len(total["states"]),
        "state_measure": getattr(mod, "STATE_MEASURE", "(normalised in-progress marker set, shadow-stack shape) pairs seen at hand-overs"),
        "fault_kinds_fired": total["faults"],
        "rare_condition_probes": total["probes"],
        "totals": total["sums"],
        "skipped_runs": total["skipped"],
        "harness_errors": len(total["errors"]),
        "components": COMPONENTS,
        "known_findings_matched": kf_hits,
        "exhaustive": False,
    }
    if hasattr(mod, "coverage_extra"):
        cov.update(mod.coverage_extra(total))
    doc = {
        "property_id": pid,
        "tier": tier,
        "seed": seed,
        "level": mod.LEVEL,
        "coverage": cov,
        "assumptions": list(getattr(mod, "ASSUMPTIONS", [])) + list(extra_assumptions),
        "wall_s": round(wall, 2),
        "violations": n_viol,
    }
    if os.environ.get("VERIF_NO_EVIDENCE"):
        return
    os.makedirs(os.path.join(VERIF, "evidence"), exist_ok=True)
    with open(os.path.join(VERIF, "evidence", pid + ".json"), "w") as f:
        json.dump(doc, f, indent=1, sort_keys=True, default=str)


def main_check(pid, tier):
    mod = load(pid)
    seed = int(os.environ.get("VERIF_SEED", "0") or 0)
    sys.stdout.write("VERIF_SEED=%d property=%s tier=%s icontract=%s\n" % (seed, pid, tier, icontract.__file__))
    sys.stdout.flush()
    if hasattr(mod, "main_check"):
        return mod.main_check(tier, seed)
    runs = int(os.environ.get("VERIF_RUNS", "0") or 0) or mod.RUNS[tier]
    budget = float(os.environ.get("VERIF_BUDGET_S", "0") or 0) or mod.BUDGET_S[tier]
    chunk = getattr(mod, "CHUNK", 100)
    total = run_batch(pid, seed, tier, runs, chunk, budget)
    kf = known_findings()
    new = {}
    kf_hits = {}
    for i, v in total["violations"]:
        k = match_known(pid, v, kf)
        if k is not None:
            kf_hits.setdefault(k["id"], {"count": 0, "what": k.get("what", ""), "example_index": i})["count"] += 1
        else:
            new.setdefault(vclass(v), []).append((i, v))
    # every listed open finding is re-checked from its committed replay on every run, whether or not this run's sample reached
    # it: the line is printed iff the finding still reproduces on the tree under test
    for k in kf:
        if k.get("status") != "open" or k.get("property") != pid or not k.get("replay") or k["id"] in kf_hits:
            continue
        try:
            with open(os.path.join(VERIF, k["replay"])) as f:
                scn = json.load(f)["scenario"]
            res = mod.execute(scn)
            if any(match_known(pid, v, [k]) is not None for v in res.get("violations") or []):
                kf_hits[k["id"]] = {"count": 0, "what": k.get("what", ""), "example_index": -1}
        except Exception as e:  # pylint: disable=broad-except
            sys.stdout.write("note: replay of listed finding %s could not be executed: %r\n" % (k["id"], e))
    for kid, h in sorted(kf_hits.items()):
        if h["example_index"] < 0:
            sys.stdout.write("KNOWN-FINDING: property=%s %s (%s; reproduced from its committed replay, not reached by this run's sample)\n" % (pid, kid, h["what"]))
        else:
            sys.stdout.write("KNOWN-FINDING: property=%s %s (%s; %d occurrences, e.g. run index %d)\n" % (pid, kid, h["what"], h["count"], h["example_index"]))
    status = 0
    reported = 0
    unreproduced = []
    # order: one class per rule first, so that different rules get reported before variants of the same rule
    order = sorted(new.items(), key=lambda kv: (sum(1 for c in sorted(new) if c[0] == kv[0][0] and c < kv[0]), kv[0]))
    for cls, examples in order:
        if reported >= int(os.environ.get("VERIF_MAX_REPORTS", "4")):
            break
        ok = False
        last = None
        for i, v in examples[:6]:
            scn = v.get("scenario") or mod.generate(gen.rng_for(seed, pid, i), tier)
            small, used = minimise(mod, scn, cls, budget=int(os.environ.get("VERIF_SHRINK", "400")))
            classes, res = execute_classes(mod, small)
            os.makedirs(os.path.join(VERIF, "replays"), exist_ok=True)
            path = os.path.join(VERIF, "replays", "%s-%d-%d.json" % (pid, seed, i))
            vv = [x for x in res.get("violations") or [] if vclass(x) == cls]
            with open(path, "w") as f:
                json.dump(
                    {
                        "property": pid,
                        "seed": seed,
                        "index": i,
                        "violation_class": list(cls),
                        "violation": {k: x for k, x in (vv[0] if vv else v).items() if k != "scenario"},
                        "digest": res.get("digest"),
                        "shrink_executions": used,
                        "scenario": small,
                    },
                    f,
                    indent=1,
                    sort_keys=True,
                    default=str,
                )
            code, out = fresh_replay(pid, path)
            last = (code, out)
            ok_fresh = code == 1 and ("CLASS-REPRODUCED" in out)
            if ok_fresh and ("digest=%s " % res.get("digest")) not in out:
                # The fresh interpreter shows the same violation class with another event log than this (long-lived, possibly
                # polluted by earlier scenarios) driver process: the fresh run is the reference. It must itself be repeatable.
                import re as _re

                m1 = _re.search(r"digest=(\S+) ", out)
                with open(path) as f:
                    rep = json.load(f)
                rep["digest"] = m1.group(1) if m1 else None
                rep["note"] = "digest taken from the fresh-interpreter replay; the batch process gave %s" % res.get("digest")
                with open(path, "w") as f:
                    json.dump(rep, f, indent=1, sort_keys=True, default=str)
                code2, out2 = fresh_replay(pid, path)
                ok_fresh = code2 == 1 and "CLASS-REPRODUCED" in out2 and m1 is not None and ("digest=%s " % m1.group(1)) in out2
                last = (code2, out2)
            if ok_fresh:
                sys.stdout.write("violation %s %s: %s\n" % (cls[0], cls[1], json.dumps((vv[0] if vv else v).get("detail"), default=str)[:800]))
                sys.stdout.write("VIOLATION property=%s replay=%s\n" % (pid, path))
                status = 1
                reported += 1
                ok = True
                break
        if not ok:
            unreproduced.append((cls, last))
    # regression corpus: the minimised histories of every defect found so far (findings/*.json, fixed ones included) are re-executed
    # on every run, whatever the seed samples - a defect that returns is reported from its committed replay
    import glob as _glob

    open_replays = {os.path.join(VERIF, k["replay"]) for k in kf if k.get("status") == "open" and k.get("replay")}
    n_corpus = 0
    corpus_files = sorted(_glob.glob(os.path.join(VERIF, "findings", "*.json"))) + sorted(_glob.glob(os.path.join(VERIF, "corpus", pid, "*.json")))
    for path in corpus_files:
        if path in open_replays:
            continue
        try:
            with open(path) as f:
                rep = json.load(f)
        except ValueError:
            continue
        if rep.get("property") != pid or "scenario" not in rep:
            continue
        n_corpus += 1
        try:
            classes, res = execute_classes(mod, rep["scenario"])
        except Exception as e:  # pylint: disable=broad-except
            sys.stdout.write("note: corpus scenario %s could not be executed: %r\n" % (os.path.basename(path), e))
            continue
        bad = [v for v in res.get("violations") or [] if match_known(pid, v, kf) is None]
        if bad:
            sys.stdout.write("violation %s %s (regression corpus): %s\n" % (bad[0]["rule"], bad[0]["classifier"], json.dumps(bad[0].get("detail"), default=str)[:600]))
            sys.stdout.write("VIOLATION property=%s replay=%s\n" % (pid, path))
            status = 1
    total["sums"]["regression_corpus_scenarios"] = n_corpus
    for cls, last in unreproduced:
        # a deviation seen in a worker process that no single scenario reproduces in a fresh interpreter depends on what
        # ran earlier in that process; it is reported as a harness-level problem only if nothing else was reported
        sys.stdout.write("UNREPRODUCED %s %s: seen in the batch but not reproduced from a single scenario in a fresh interpreter (exit %s)\n" % (cls[0], cls[1], last[0] if last else None))
        if status == 0:
            status = 2
    if total["errors"]:
        for i, e in total["errors"][:5]:
            sys.stdout.write("HARNESS-ERROR run index %d: %s\n" % (i, e))
        status = max(status, 2) if status != 1 else 1
    if total["evaluations"] == 0:
        sys.stdout.write("HARNESS-ERROR nothing was executed\n")
        status = 2
    write_evidence(pid, tier, seed, mod, total, len(new), kf_hits)
    sys.stdout.write(
        "%s %s: %d runs (%d scheduled of %d) in %.1fs, %d distinct non-trivial, %d new violation classes, %d known-finding classes, %d harness errors\n"
        % (pid, tier, total["evaluations"], total["scheduled"], runs, total["wall_s"], len(total["nontrivial"]), len(new), len(kf_hits), len(total["errors"]))
    )
    return status


def main(argv):
    import warnings

    # awaitables that the library rejects (misplaced async contracts) are never awaited: not this driver's business at exit
    warnings.filterwarnings("ignore", message=".*was never awaited", category=RuntimeWarning)
    if not argv:
        sys.stdout.write(__doc__ + "\n")
        return 2
    if argv[0] == "--worker":
        return load(argv[1]).worker(argv[2:])
    if argv[0] == "--digests":
        import selftest

        return selftest.digests_main(argv[1:])
    if argv[0] == "selftest-determinism":
        import selftest

        return selftest.determinism(argv[1:])
    if argv[0] == "selftest-refactorings":
        import selftest

        return selftest.refactorings(argv[1:])
    if argv[0] == "selftest-mutants":
        import selftest

        return selftest.mutants(argv[1:])
    pid = argv[0]
    if pid not in PROPS:
        sys.stdout.write("unknown property %s\n" % pid)
        return 2
    if len(argv) >= 3 and argv[1] == "--replay":
        return do_replay(pid, argv[2])
    tier = argv[1] if len(argv) > 1 else os.environ.get("VERIF_TIER", "quick")
    if tier not in ("quick", "thorough"):
        sys.stdout.write("unknown tier %s\n" % tier)
        return 2
    return main_check(pid, tier)


if __name__ == "__main__":
    try:
        code = main(sys.argv[1:])
    except SystemExit:
        raise
    except BaseException as e:  # pylint: disable=broad-except
        sys.stdout.write("HARNESS-ERROR %s: %s\n%s\n" % (type(e).__name__, e, traceback.format_exc()))
        code = 2
    sys.stdout.flush()
    sys.exit(code)
