"""Self-tests of the machinery (not property checks).

determinism: every scenario index gives the same event-log digest when executed twice in one
process, in a fresh interpreter under another PYTHONHASHSEED, and under other worker counts.

mutants: every committed patch under /verif/mutants (a realistic change of icontract that keeps the
pinned test-suite green) must be reported as VIOLATION by the quick check of the property it breaks.
"""
import concurrent.futures
import glob
import json
import multiprocessing
import os
import shutil
import subprocess
import sys
import tempfile
import time

HERE = os.path.dirname(os.path.abspath(__file__))
VERIF = os.path.dirname(HERE)


def _digests(args):
    pid, seed, start, n = args
    import run as runmod
    import gen

    mod = runmod.load(pid)
    out = []
    for i in range(start, start + n):
        scn = mod.generate(gen.rng_for(seed, pid, i), "quick")
        res = mod.execute(scn)
        vio = sorted([v["rule"], v["classifier"]] for v in res.get("violations") or [])  # (lists: what a JSON round trip gives)
        out.append([i, res.get("digest"), vio])
    return out


def digests_main(argv):
    pid, seed, n, workers = argv[0], int(argv[1]), int(argv[2]), int(argv[3])
    if workers <= 1:
        res = _digests((pid, seed, 0, n))
    else:
        chunk = max(1, n // (workers * 2))
        jobs = [(pid, seed, s, min(chunk, n - s)) for s in range(0, n, chunk)]
        res = []
        with concurrent.futures.ProcessPoolExecutor(max_workers=workers, mp_context=multiprocessing.get_context("fork")) as ex:
            for part in ex.map(_digests, jobs):
                res.extend(part)
    sys.stdout.write("DIGESTS " + json.dumps(res) + "\n")
    return 0


def _sub(pid, seed, n, workers, hashseed):
    env = dict(os.environ, PYTHONHASHSEED=str(hashseed), PYTHONPATH=os.environ.get("VERIF_REPO", "/repo"))
    p = subprocess.run(
        [sys.executable, os.path.join(HERE, "run.py"), "--digests", pid, str(seed), str(n), str(workers)],
        stdout=subprocess.PIPE,
        stderr=subprocess.PIPE,
        env=env,
        timeout=3000,
    )
    for line in p.stdout.decode().splitlines():
        if line.startswith("DIGESTS "):
            return json.loads(line[8:])
    raise RuntimeError("no digests from subprocess: %s %s" % (p.stdout[-500:], p.stderr[-2000:]))


def determinism(argv):
    import run as runmod

    pids = [a for a in argv if a in runmod.PROPS] or [p for p in sorted(runmod.PROPS) if os.path.exists(os.path.join(HERE, "props", p.lower() + ".py"))]
    n = int(os.environ.get("VERIF_DET_N", "300"))
    seed = int(os.environ.get("VERIF_SEED", "0") or 0)
    bad = 0
    report = {}
    for pid in pids:
        mod = runmod.load(pid)
        if not hasattr(mod, "generate"):
            continue
        t0 = time.time()
        a = _digests((pid, seed, 0, n))
        b = _digests((pid, seed, 0, n))
        c = _sub(pid, seed, n, 1, 12345)
        d = _sub(pid, seed, n, 5, 0)
        e = _sub(pid, seed, n, 16, 777)
        diffs = []
        for name, other in (("same-process-rerun", b), ("fresh-interpreter-hashseed-12345", c), ("5-workers", d), ("16-workers-hashseed-777", e)):
            oa = {x[0]: x[1:] for x in a}
            ob = {x[0]: x[1:] for x in other}
            dd = [i for i in oa if oa[i] != ob.get(i)]
            if dd:
                diffs.append((name, dd[:10]))
        report[pid] = {"indices": n, "differences": diffs, "wall_s": round(time.time() - t0, 1), "with_digest": sum(1 for x in a if x[1])}
        sys.stdout.write("determinism %s: %d indices x 5 executions, %d comparisons differ %s\n" % (pid, n, len(diffs), diffs if diffs else ""))
        sys.stdout.flush()
        bad += len(diffs)
    os.makedirs(os.path.join(VERIF, "evidence"), exist_ok=True)
    with open(os.path.join(VERIF, "evidence", "selftest-determinism.json"), "w") as f:
        json.dump(report, f, indent=1, sort_keys=True)
    return 2 if bad else 0


# -------------------------------------------------------------------------------------------------
def mutants(argv):
    """Apply each /verif/mutants/*.patch (and /verif/seeded/*/patch.diff) to a scratch copy of /repo and run the quick check."""
    metas = []
    for p in sorted(glob.glob(os.path.join(VERIF, "mutants", "*.patch"))):
        meta_path = p[:-6] + ".json"
        meta = json.load(open(meta_path)) if os.path.exists(meta_path) else {}
        metas.append((os.path.basename(p)[:-6], p, meta.get("properties") or [], meta))
    for d in sorted(glob.glob(os.path.join(VERIF, "seeded", "*"))):
        p = os.path.join(d, "patch.diff")
        mp = os.path.join(d, "meta.json")
        if os.path.exists(p) and os.path.exists(mp):
            meta = json.load(open(mp))
            metas.append(("seeded/" + os.path.basename(d), p, meta.get("properties") or ([meta["property"]] if meta.get("property") else []), meta))
    only = [a for a in argv if not a.startswith("-")]
    check_baseline = "--baseline" in argv
    results = []
    missed = 0
    for name, patch, props, meta in metas:
        if only and not any(o in name for o in only):
            continue
        tmp = tempfile.mkdtemp(prefix="verif-mutant-")
        try:
            dst = os.path.join(tmp, "repo")
            subprocess.run(["git", "-C", "/repo", "worktree", "prune"], check=False, stdout=subprocess.DEVNULL, stderr=subprocess.DEVNULL)
            shutil.copytree("/repo", dst, ignore=shutil.ignore_patterns(".git", "__pycache__", "*.egg-info", "docs", "benchmarks"))
            ap = subprocess.run(["patch", "-p1", "-s", "-d", dst, "-i", patch], stdout=subprocess.PIPE, stderr=subprocess.STDOUT)
            if ap.returncode != 0:
                results.append({"mutant": name, "status": "patch does not apply", "output": ap.stdout.decode()[-400:]})
                sys.stdout.write("mutant %-45s PATCH-DOES-NOT-APPLY\n" % name)
                missed += 1
                continue
            base_ok = None
            if check_baseline:
                bp = subprocess.run([os.path.join(VERIF, "tools", "baseline.py"), dst], stdout=subprocess.PIPE, stderr=subprocess.STDOUT)
                base_ok = bp.returncode == 0
            row = {"mutant": name, "baseline_green": base_ok, "checks": {}}
            caught = False
            for pid in props:
                env = dict(os.environ, PYTHONPATH=dst, VERIF_REPO=dst, PYTHONHASHSEED="0", VERIF_NO_EVIDENCE="1")
                t0 = time.time()
                cp = subprocess.run([sys.executable, os.path.join(HERE, "run.py"), pid, "quick"], stdout=subprocess.PIPE, stderr=subprocess.STDOUT, env=env, timeout=3000)
                out = cp.stdout.decode(errors="replace")
                viol = [l for l in out.splitlines() if l.startswith("VIOLATION")]
                row["checks"][pid] = {"exit": cp.returncode, "violation_lines": len(viol), "wall_s": round(time.time() - t0, 1), "first": next((l for l in out.splitlines() if l.startswith("violation ")), "")[:300]}
                if cp.returncode == 1 and viol:
                    caught = True
                    # keep the minimised scenario that exposed this change in the corpus that every later run of the check replays
                    # (sampling frequencies shift whenever a generator grows; the corpus does not)
                    import re as _re

                    m_ = _re.search(r"replay=(\S+\.json)", viol[0])
                    dst_dir = os.path.join(VERIF, "corpus", pid)
                    dst_file = os.path.join(dst_dir, name.replace("/", "_") + ".json")
                    if m_ and os.path.exists(m_.group(1)) and os.path.dirname(m_.group(1)).endswith("replays") and not os.path.exists(dst_file):
                        os.makedirs(dst_dir, exist_ok=True)
                        shutil.copy(m_.group(1), dst_file)
            row["caught"] = caught
            results.append(row)
            if not caught:
                missed += 1
            sys.stdout.write("mutant %-45s %s %s\n" % (name, "CAUGHT" if caught else "MISSED", json.dumps({k: (v["exit"], v["wall_s"]) for k, v in row["checks"].items()})))
            sys.stdout.flush()
        finally:
            shutil.rmtree(tmp, ignore_errors=True)
    with open(os.path.join(VERIF, "evidence", "selftest-mutants.json"), "w") as f:
        json.dump(results, f, indent=1, sort_keys=True)
    sys.stdout.write("mutants: %d run, %d missed\n" % (len(results), missed))
    return 0 if missed == 0 else 1


def refactorings(argv):
    """Apply each /verif/refactorings/*.diff (behaviour-preserving) to a scratch copy of /repo; every quick check must exit 0."""
    import run as runmod

    only = [a for a in argv if not a.startswith("-")]
    results = []
    alarms = 0
    for patch in sorted(glob.glob(os.path.join(VERIF, "refactorings", "*.diff"))):
        name = os.path.basename(patch)[:-5]
        if only and not any(o in name for o in only):
            continue
        tmp = tempfile.mkdtemp(prefix="verif-refactoring-")
        try:
            dst = os.path.join(tmp, "repo")
            shutil.copytree("/repo", dst, ignore=shutil.ignore_patterns(".git", "__pycache__", "*.egg-info", "docs", "benchmarks"))
            ap = subprocess.run(["patch", "-p1", "-s", "-d", dst, "-i", patch], stdout=subprocess.PIPE, stderr=subprocess.STDOUT)
            if ap.returncode != 0:
                results.append({"refactoring": name, "status": "patch does not apply"})
                sys.stdout.write("refactoring %-8s PATCH-DOES-NOT-APPLY\n" % name)
                continue
            row = {"refactoring": name, "checks": {}}
            for pid in sorted(runmod.PROPS):
                env = dict(os.environ, PYTHONPATH=dst, VERIF_REPO=dst, PYTHONHASHSEED="0", VERIF_NO_EVIDENCE="1")
                t0 = time.time()
                cp = subprocess.run([sys.executable, os.path.join(HERE, "run.py"), pid, "quick"], stdout=subprocess.PIPE, stderr=subprocess.STDOUT, env=env, timeout=3000)
                row["checks"][pid] = {"exit": cp.returncode, "wall_s": round(time.time() - t0, 1)}
                if cp.returncode != 0:
                    alarms += 1
                    row["checks"][pid]["output"] = cp.stdout.decode(errors="replace")[-1500:]
            results.append(row)
            sys.stdout.write("refactoring %-8s %s\n" % (name, "NO ALARM" if all(c["exit"] == 0 for c in row["checks"].values()) else "ALARM " + json.dumps({k: v["exit"] for k, v in row["checks"].items() if v["exit"]})))
            sys.stdout.flush()
        finally:
            shutil.rmtree(tmp, ignore_errors=True)
    with open(os.path.join(VERIF, "evidence", "selftest-refactorings.json"), "w") as f:
        json.dump(results, f, indent=1, sort_keys=True)
    sys.stdout.write("refactorings: %d run, %d alarms\n" % (len(results), alarms))
    return 0 if alarms == 0 else 1
