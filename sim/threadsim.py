"""Baton-passing thread scheduler: real threads, exactly one runs at a time, the scenario decides who.

Yield points are (a) every instrumented hand-over of the generated application and (b), when
``line_level`` is on, every ``line`` event of a frame whose code lives in the icontract package.
At a yield point the running thread consumes one entry of ``choices``: 0 = keep running, k>0 = hand
the baton to the k-th other runnable thread (sorted by name).  When ``choices`` is exhausted the
answer is 0.  Nothing here draws from a PRNG or reads a clock (the semaphore timeouts only turn a
harness deadlock into an error instead of a hang).
"""
import os
import sys
import threading

import icontract

from core import HarnessError

_ICONTRACT_DIR = os.path.dirname(os.path.abspath(icontract.__file__)) + os.sep
_TIMEOUT = 30.0


class ThreadSim:
    def __init__(self, run, choices, line_level=False):
        self.run = run
        self.choices = choices or []
        self.ci = 0
        self.line_level = line_level
        self.sems = {}
        self.state = {}
        self.order = []
        self.current = None
        self.handoffs = 0
        self.yields = 0
        self.line_events = 0
        self.errors = []
        self.done = threading.Semaphore(0)
        self.switches = []  # sequence of actor names that got the baton

    def _choice(self):
        c = self.choices[self.ci] if self.ci < len(self.choices) else 0
        self.ci += 1
        return c

    def _ready_others(self, me):
        return [n for n in self.order if self.state[n] == "ready" and n != me]

    def yield_point(self, actor):
        name = actor.name
        if name not in self.sems:
            return  # not a simulated thread (e.g. the set-up phase on the main thread)
        if self.current != name:
            raise HarnessError("thread %s runs without the baton (holder %s)" % (name, self.current))
        self.yields += 1
        c = self._choice()
        if c == 0:
            return
        others = self._ready_others(name)
        if not others:
            return
        nxt = others[(c - 1) % len(others)]
        self.handoffs += 1
        self.current = nxt
        self.switches.append(nxt)
        self.sems[nxt].release()
        if not self.sems[name].acquire(timeout=_TIMEOUT):
            raise HarnessError("baton timeout in %s" % name)

    def _tracer(self, actor_box):
        sim = self

        def local(frame, event, arg):
            if event == "line":
                sim.line_events += 1
                a = actor_box[0]
                if a is not None:
                    sim.yield_point(a)
            return local

        def glob(frame, event, arg):
            if event == "call" and frame.f_code.co_filename.startswith(_ICONTRACT_DIR):
                return local
            return None

        return glob

    def _main(self, name, ctx, fn):
        if not self.sems[name].acquire(timeout=_TIMEOUT):
            self.errors.append((name, HarnessError("never scheduled")))
            return
        box = [None]

        def inner():
            box[0] = self.run.enter_actor(name)
            if self.line_level:
                sys.settrace(self._tracer(box))
            try:
                fn()
            finally:
                if self.line_level:
                    sys.settrace(None)

        try:
            ctx.run(inner)
        except BaseException as e:  # pylint: disable=broad-except
            self.errors.append((name, e))
        finally:
            self.state[name] = "done"
            others = self._ready_others(name)
            if others:
                nxt = others[0]
                self.current = nxt
                self.switches.append(nxt)
                self.sems[nxt].release()
            else:
                self.current = None
                self.done.release()

    def run_all(self, actors):
        """``actors``: list of (name, context, zero-arg callable). Runs them to completion."""
        threads = []
        for name, ctx, fn in actors:
            self.sems[name] = threading.Semaphore(0)
            self.state[name] = "ready"
            self.order.append(name)
        self.order.sort()
        for name, ctx, fn in actors:
            th = threading.Thread(target=self._main, args=(name, ctx, fn), name="sim-" + name, daemon=True)
            threads.append(th)
            th.start()
        if not threads:
            return
        c = self._choice()
        first = self.order[c % len(self.order)]
        self.current = first
        self.switches.append(first)
        self.sems[first].release()
        if not self.done.acquire(timeout=_TIMEOUT * 4):
            raise HarnessError("thread simulation did not finish")
        for th in threads:
            th.join(timeout=_TIMEOUT)
            if th.is_alive():
                raise HarnessError("thread %s did not end" % th.name)
        for name, e in self.errors:
            raise e
