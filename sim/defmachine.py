"""The definition machine: histories of class definitions / function decorations on ONE live world.

A scenario is a list of steps executed in order against the real decorators and the real DBCMeta:

  {"op": "func",  "spec": {...}}                     decorate a new function
  {"op": "class", "spec": {...}}                     define a new class (bases among earlier classes, else DBC)
  {"op": "bad",   "kind": "weaken"|"dupsnap"|"snap_no_post", "spec": {...}, "expect": "TypeError"|"ValueError"}
  {"op": "append", "unit": "K0.m0" | "f0", "role": "pre"|"post"}    documented add_*_to_checker helper

After every step the machine observes every *earlier* definition:
  * structural fingerprint: entries (by identity, mapped back to the site id they were created for) of the
    checker lists of every member and of the class's three invariant lists (list object identity not included);
  * verdict vector: outcomes of a fixed family of probe calls on a fresh instance / the function, one probe per
    known contract made falsy on its own (contracts that did not exist when the vector was stored count as
    "not falsifiable", i.e. the stored all-true verdict is the expectation).
It also records what the integrator registration hook received, and evaluates the introspected lists by
hand, the way tests/test_for_integrators.py does, against the verdict of the real call.
"""
import contextvars
import functools
import inspect
import re

import icontract
import icontract._checkers as _ck
import icontract._metaclass as _mc

import core


class Machine:
    def __init__(self):
        self.run = core.Run({})
        self.run.max_events = 10 ** 7
        self.world = self.run.world
        self.ctx = contextvars.Context()
        self.ctx.run(self.run.enter_actor, "defs")
        self.announced = []  # what the registration hook received, in order
        self.n_obj = 0
        self.n_probe = 0
        self.partials = []
        self.stored_fp = {}
        self.stored_vv = {}
        self.defined_at = {}
        self.order = []
        self.probe_calls = 0
        self.manual_checks = 0
        self._orig_hook = _mc._register_for_hypothesis

    # -- hook ---------------------------------------------------------------------------------
    def __enter__(self):
        m = self

        def recorder(cls):
            m.announced.append(cls)

        _mc._register_for_hypothesis = recorder
        return self

    def __exit__(self, *a):
        _mc._register_for_hypothesis = self._orig_hook

    # -- names --------------------------------------------------------------------------------
    def label_of(self, contract):
        for sid, c in self.world.contracts.items():
            if c is contract:
                return sid
        return "?"

    def _labels(self, lst):
        idx = {id(c): sid for sid, c in self.world.contracts.items()}
        return [idx.get(id(c), "?") for c in lst]

    def members_of(self, cname):
        cls = self.world.classes[cname]
        names = []
        by_obj = {id(c): nm for nm, c in self.world.classes.items()}  # (several classes may share one Python name)
        for k in cls.__mro__:
            nm = by_obj.get(id(k))
            if nm is not None:
                cs = self.world.cspec[nm]
                for m in cs.get("methods", ()):
                    if m["name"] not in names:
                        names.append(m["name"])
        return sorted(names)

    def _func_of(self, cls, name):
        for k in cls.__mro__:
            if name in k.__dict__:
                v = k.__dict__[name]
                if isinstance(v, (staticmethod, classmethod)):
                    return [("", v.__func__)]
                if isinstance(v, property):
                    return [(".get", v.fget)] + ([(".set", v.fset)] if v.fset else [])
                if isinstance(v, functools.cached_property):
                    return [("", v.func)]
                return [("", v)]
        return []

    # -- fingerprints -------------------------------------------------------------------------
    def _checker_fp(self, f):
        ck = _ck.find_checker(f)
        if ck is None:
            return None
        idx = {id(c): sid for sid, c in self.world.contracts.items()}
        lab = lambda c: idx.get(id(c), "?")  # noqa: E731
        return {
            "pre": [[lab(c) for c in g] for g in ck.__preconditions__],
            "snaps": [lab(c) for c in ck.__postcondition_snapshots__],
            "post": [lab(c) for c in ck.__postconditions__],
        }

    def fingerprint(self, name):
        if name in self.world.funcs:
            return {"f": self._checker_fp(self.world.funcs[name])}
        cls = self.world.classes[name]
        fp = {}
        for d in ("__invariants__", "__invariants_on_call__", "__invariants_on_setattr__"):
            fp[d] = self._labels(getattr(cls, d)) if hasattr(cls, d) else None
        for m in self.members_of(name) + ["__init__"]:
            for suffix, f in self._func_of(cls, m):
                fp[m + suffix] = self._checker_fp(f)
        return fp

    # -- probes -------------------------------------------------------------------------------
    def _sids_for(self, member):
        pat = re.compile(r"^[A-Za-z0-9_]+\.%s(\.set)?/(pre|post)\d+$" % re.escape(member))
        return sorted(s for s in self.world.contracts if pat.match(s))

    def _inv_sids(self):
        return sorted(s for s in self.world.contracts if re.match(r"^[A-Za-z0-9_]+/inv\d+$", s))

    def _call(self, td):
        self.probe_calls += 1
        if self.world.is_async(td):
            import corodriver

            self.run.sleep = corodriver.sleep
            out = self.ctx.run(lambda: corodriver.drive(self.run.acall(td)))
        else:
            out = self.ctx.run(self.run.call, td)
        v = out["verdict"]
        if isinstance(out.get("exc_obj"), (core.Abort, core.HarnessError)):
            raise out["exc_obj"]
        return v

    def _manual_ctor(self, cname, obj, real, manual):
        """After a constructor call that returned, every invariant of the class must hold on the object when evaluated by hand."""
        cls = self.world.classes[cname]
        invs = getattr(cls, "__invariants__", None) or []
        idx = {id(c): sid for sid, c in self.world.contracts.items()}
        self.manual_checks += 1
        for inv in invs:
            ok = self.ctx.run(self._manual_inv, inv, obj, {"id": "ctor%d" % self.n_probe})
            if not ok:
                manual.append(("%s.__init__" % cname, None, ["viol", idx.get(id(inv), "?")], real))
                return
        manual.append(("%s.__init__" % cname, None, ["ret"], real))

    def _new_obj(self, cname, flags=None, content=None):
        self.n_obj += 1
        label = "x%d" % self.n_obj
        self.n_probe += 1
        td = {"id": "n%d" % self.n_probe, "fn": "__init__", "op": "new", "cls": cname, "obj": label}
        if content is not None:
            td["content"] = content
        if flags:
            td["flags"] = flags
        v = self._call(td)
        return label, v

    def _member_probe(self, cname, label, m, kind, sites):
        self.n_probe += 1
        td = {"id": "q%d" % self.n_probe, "fn": m}
        if kind in ("static", "class"):
            td["cls"] = cname
        else:
            td["obj"] = label
        if kind in ("prop", "cprop"):
            td["op"] = "get"
        if sites:
            td["sites"] = sites
        return td

    def member_kind(self, cname, m):
        cls = self.world.classes[cname]
        for k in cls.__mro__:
            if m in k.__dict__:
                v = k.__dict__[m]
                if isinstance(v, staticmethod):
                    return "static"
                if isinstance(v, classmethod):
                    return "class"
                if isinstance(v, property):
                    return "prop"
                if isinstance(v, functools.cached_property):
                    return "cprop"
                return "method"
        return "method"

    def verdict_vector(self, name, manual=None):
        """{probe key: verdict}; probe key = falsified site id or 'ok'. ``manual`` collects hand evaluations."""
        vv = {}
        if name in self.world.funcs:
            for s in [None] + self._sids_for_func(name):
                self.n_probe += 1
                td = {"id": "q%d" % self.n_probe, "fn": name}
                if s:
                    td["sites"] = {s: {"truth": False}}
                vv["f:%s" % (s or "ok")] = self._call(td)
                if manual is not None:
                    self._manual_func(name, td, vv["f:%s" % (s or "ok")], manual)
            return vv
        invs = self._inv_sids()
        for s in [None] + invs:
            label, v = self._new_obj(name, {s: False} if s else None)
            vv["new:%s" % (s or "ok")] = v
        if self.world._builtin_root(name):
            # filled with three elements: invariants on the content must be judged on the *constructed* object
            lab3, v3 = self._new_obj(name, None, content=3)
            vv["new:content3"] = v3
            if manual is not None and v3[0] == "ret":
                self._manual_ctor(name, self.world.objects[lab3], v3, manual)
        label, v = self._new_obj(name)
        if manual is not None and v[0] == "ret":
            self._manual_ctor(name, self.world.objects[label], v, manual)
        if v[0] != "ret":
            return vv
        obj = self.world.objects[label]
        for m in self.members_of(name):
            kind = self.member_kind(name, m)
            for s in [None] + self._sids_for(m):
                td = self._member_probe(name, label, m, kind, {s: {"truth": False}} if s else None)
                key = "%s:%s" % (m, s or "ok")
                vv[key] = self._call(td)
                if manual is not None:
                    self._manual_member(name, obj, m, kind, td, vv[key], manual)
            if kind == "prop":
                # the setter of the property (where the class or a base defines one)
                fs = self._func_of(self.world.classes[name], m)
                if any(sfx == ".set" for sfx, _f in fs):
                    set_sids = [s for s in self._sids_for(m) if ".set/" in s]
                    for s in [None] + set_sids:
                        td = self._member_probe(name, label, m, kind, {s: {"truth": False}} if s else None)
                        td["op"] = "set"
                        vv["%s.set:%s" % (m, s or "ok")] = self._call(td)
                        if manual is not None:
                            self._manual_member(name, obj, m, "prop_set", td, vv["%s.set:%s" % (m, s or "ok")], manual)
                    if manual is not None:
                        # with an invariant of the object falsified, assigning through the property must be reported
                        for s in invs:
                            obj._flags[s] = False
                            td = self._member_probe(name, label, m, kind, None)
                            td["op"] = "set"
                            v_ = self._call(td)
                            if not getattr(self.world.classes[name], "__invariants_on_setattr__", None):
                                self._manual_member(name, obj, m, "prop_set", td, v_, manual)
                            obj._flags.pop(s, None)
            # a capture that is only defined when the precondition holds: precondition falsified AND every capture raising
            pres = [s for s in self._sids_for(m) if "/pre" in s]
            snaps = sorted(s for s in self.world.contracts if re.match(r"^[A-Za-z0-9_]+\.%s(\.set)?/snap\d+$" % re.escape(m), s))
            if pres and snaps and manual is not None:
                sites = {s: {"truth": False} for s in pres}
                for s in snaps:
                    sites[s] = {"fault": {"kind": "raise:FaultError"}}
                td = self._member_probe(name, label, m, kind, sites)
                v = self._call(td)
                self._manual_member(name, obj, m, kind, td, v, manual)
            if len(pres) > 1 and manual is not None:
                # a precondition condition that raises: the exception is the outcome of the call, whatever the other groups say
                for s in pres[:3]:
                    td = self._member_probe(name, label, m, kind, {s: {"fault": {"kind": "raise:FaultError"}}})
                    v = self._call(td)
                    self._manual_member(name, obj, m, kind, td, v, manual)
            if kind in ("method", "prop"):
                for s in invs:
                    obj._flags[s] = False
                    td = self._member_probe(name, label, m, kind, None)
                    vv["%s:%s" % (m, s)] = self._call(td)
                    if manual is not None:
                        self._manual_member(name, obj, m, kind, td, vv["%s:%s" % (m, s)], manual)
                    obj._flags.pop(s, None)
        return vv

    def _sids_for_func(self, name):
        pat = re.compile(r"^%s/(pre|post)\d+$" % re.escape(name))
        return sorted(s for s in self.world.contracts if pat.match(s))

    # -- hand evaluation of the introspected lists (what an integrator does) --------------------------
    def _manual_eval(self, f, td, args, obj):
        """Evaluate checker lists by hand; returns ['ret'] or ['viol', sid]. Runs inside a harness pseudo-call."""
        ck = _ck.find_checker(f)
        run = self.run
        world = self.world
        idx = {id(c): sid for sid, c in world.contracts.items()}

        def go():
            a = run.actor()
            tx = core.TX(run, dict(td, id=td["id"] + "m"), None)
            tx.unit = "manual"
            a.tstack.append(tx)
            a.stack.append(("call", "manual", None, tx.xid))
            try:
                kwargs = dict(args)
                kw = dict(kwargs)
                if "t" in kw:
                    kw["t"] = tx.t
                pre = ck.__preconditions__ if ck is not None else []
                failed = None
                for group in pre:
                    failed = None
                    for c in group:
                        sel = {k: v for k, v in kw.items() if k in c.condition_arg_set}
                        if not c.condition(**sel):
                            failed = idx.get(id(c), "?")
                            break
                    if failed is None:
                        break
                if failed is not None:
                    return ["viol", failed]
                snaps = ck.__postcondition_snapshots__ if ck is not None else []
                posts = ck.__postconditions__ if ck is not None else []
                old = {}
                if posts and snaps:
                    for sn in snaps:
                        sel = {k: v for k, v in kw.items() if k in sn.arg_set}
                        old[sn.name] = sn.capture(**sel)
                raw = f
                while hasattr(raw, "__wrapped__"):
                    raw = raw.__wrapped__
                result = raw(**kw)
                if inspect.iscoroutine(result):
                    import corodriver

                    result = corodriver.drive(result)
                kw["result"] = result
                kw["OLD"] = _ck.Old(mapping=old)
                for c in posts:
                    sel = {k: v for k, v in kw.items() if k in c.condition_arg_set}
                    if not c.condition(**sel):
                        return ["viol", idx.get(id(c), "?")]
                return ["ret"]
            except core.FaultError as e:
                return ["fault", type(e).__name__, e.verif_fault[1]]
            finally:
                a.stack.pop()
                a.tstack.pop()

        return self.ctx.run(go)

    def _manual_func(self, name, td, real, manual):
        f = self.world.funcs[name]
        self.manual_checks += 1
        mv = self._manual_eval(f, td, {"t": None}, None)
        manual.append(("f:" + name, td.get("sites"), mv, real))

    def _manual_member(self, cname, obj, m, kind, td, real, manual):
        cls = self.world.classes[cname]
        fs = self._func_of(cls, m)
        if not fs:
            return
        f = fs[0][1]
        if kind == "prop_set":
            f = [x for sfx, x in fs if sfx == ".set"][0]
        self.manual_checks += 1
        # invariants first (those selected for calls), as the wrapper does
        if kind in ("method", "prop", "prop_set") and getattr(cls, "__invariants__", None):
            idx = {id(c): sid for sid, c in self.world.contracts.items()}
            # the documented list is ``__invariants__``; an integrator selects those checked at calls by ``check_on``
            on_call = [inv for inv in cls.__invariants__ if icontract.InvariantCheckEvent.CALL in getattr(inv, "check_on", icontract.InvariantCheckEvent.CALL)]
            for inv in on_call:
                ok = self.ctx.run(self._manual_inv, inv, obj, td)
                if not ok:
                    manual.append(("%s.%s" % (cname, m), td.get("sites"), ["viol", idx.get(id(inv), "?")], real))
                    return
        if kind == "method":
            args = {"self": obj, "t": None}
        elif kind in ("prop", "cprop"):
            args = {"self": obj}
        elif kind == "prop_set":
            args = {"self": obj, "value": None}
        elif kind == "class":
            args = {"cls": cls, "t": None}
        else:
            args = {"t": None}
        mv = self._manual_eval(f, td, args, obj)
        manual.append(("%s.%s" % (cname, m), td.get("sites"), mv, real))

    def _manual_inv(self, inv, obj, td):
        run = self.run
        a = run.actor()
        tx = core.TX(run, dict(td, id=td["id"] + "i"), None)
        tx.unit = "manual"
        a.tstack.append(tx)
        a.stack.append(("call", "manual", None, tx.xid))
        try:
            return bool(inv.condition(self=obj) if "self" in inv.condition_arg_set else inv.condition())
        finally:
            a.stack.pop()
            a.tstack.pop()

    # -- steps --------------------------------------------------------------------------------
    def define(self, step):
        """Execute a definition step; returns (ok, exception or None, announced-during-step)."""
        before = len(self.announced)
        op = step["op"]
        exc = None
        try:
            if op == "func":
                self.ctx.run(self.world.add_func, step["spec"])
                name = step["spec"]["name"]
            elif op in ("class", "bad"):
                if op == "bad" and step.get("kind") == "snap_no_post":
                    self.ctx.run(self.world._build_func, step["spec"])
                    name = None
                else:
                    self.ctx.run(self.world.add_class, step["spec"])
                    name = step["spec"]["name"]
            elif op == "append":
                name = None
                self._append(step)
            elif op == "late":
                name = None
                self._late(step)
            elif op == "late_inv":
                name = None
                self._late_inv(step)
            elif op == "clone":
                name = None
                self._clone(step)
            elif op == "partial":
                name = None
                self._partial(step)
            else:
                raise core.HarnessError("unknown step " + op)
        except (core.HarnessError, core.Abort):
            raise
        except Exception as e:  # pylint: disable=broad-except
            exc = e
            name = None
        return name, exc, self.announced[before:]

    def _partial(self, step):
        """Decorate ``functools.partial(f, ...)`` of an already contracted function: a new callable with contracts of its own."""
        f = self.world.funcs[step["unit"]]
        n = len([s_ for s_ in self.world.contracts if s_.startswith("%s.partial/" % step["unit"])])
        sid = "%s.partial/%s%d" % (step["unit"], step["role"], n)
        if step["role"] == "pre":
            cond = self.world._fn("c_" + core._san(sid), ("t",), "sync", sid, "pre")
            dec = icontract.require(cond, description="[[%s]]" % sid, enabled=True)
        else:
            cond = self.world._fn("c_" + core._san(sid), ("t", "result"), "sync", sid, "post")
            dec = icontract.ensure(cond, description="[[%s]]" % sid, enabled=True)
        self.partials.append(dec(functools.partial(f)))
        self.world.contracts[sid] = dec._contract
        return sid

    def _clone(self, step):
        """Re-create a class from its own namespace through its metaclass (what ``dataclasses.dataclass(slots=True)`` and
        ``attr.s(slots=True)`` do); the original stays in use."""
        old = self.world.classes[step["of"]]
        ns = dict(old.__dict__)
        ns.pop("__dict__", None)
        ns.pop("__weakref__", None)
        new = self.ctx.run(type(old), old.__name__, old.__bases__, ns)
        self.world.classes[step["name"]] = new
        self.world.cspec[step["name"]] = dict(self.world.cspec[step["of"]], name=step["name"], clone_of=step["of"], methods=[], invs=[])
        return new

    def _late_inv(self, step):
        """Apply the invariant decorator to a class that already exists (and may already have subclasses)."""
        cname = step["unit"]
        cls = self.world.classes[cname]
        run = self.run
        n = len([s_ for s_ in self.world.contracts if s_.startswith("%s/inv" % cname)])
        sid = "%s/inv%d" % (cname, n + 10)

        def c(self):
            return run.hit(sid, "inv", self)

        c.__name__ = "i_" + core._san(sid)
        dec = icontract.invariant(c, description="[[%s]]" % sid, check_on=core._CHECK_ON[step.get("check_on", "CALL")], enabled=True)
        dec(cls)
        self.world.contracts[sid] = dec._invariant
        return sid

    def _late(self, step):
        """Decorate a member of an existing class with the public decorators and re-bind it (K.m = require(...)(K.m))."""
        unit = step["unit"]
        role = step["role"]
        cname, m = unit.split(".")
        cls = self.world.classes[cname]
        cur = cls.__dict__.get(m)
        if cur is None:
            raise core.HarnessError("late decoration of a member the class does not define itself")
        spec_own = [x for x in self.world.cspec[cname].get("methods", ()) if x["name"] == m and x.get("kind", "method") in ("method", "prop")]
        if not spec_own:
            raise core.HarnessError("late decoration of a member the class does not declare itself")
        is_prop = isinstance(cur, property)
        target = cur.fget if is_prop else cur
        params = ("self",) if is_prop else ("t",)
        ck0 = _ck.find_checker(target)
        if role == "pre" and ck0 is not None and len(ck0.__preconditions__) > 1:
            # The documented helper behind the decorator accepts at most one precondition group ("the preconditions are
            # merged only in the DBC metaclass"); the library guards this with an assert, i.e. only in non-optimised mode.
            # Decorating such a member again is outside the documented use, so the step is skipped (counted as a probe).
            self.skipped_late = getattr(self, "skipped_late", 0) + 1
            return None
        n = len([s for s in self.world.contracts if s.startswith("%s/%s" % (unit, role))])
        sid = "%s/%s%d" % (unit, role, n + 10)
        if role == "pre":
            dec = icontract.require(self.world._fn("c_" + core._san(sid), params, "sync", sid, "pre"), description="[[%s]]" % sid, enabled=True)
        else:
            dec = icontract.ensure(self.world._fn("c_" + core._san(sid), params + ("result",), "sync", sid, "post"), description="[[%s]]" % sid, enabled=True)
        new = dec(target)
        if ck0 is None:
            # no checker existed: the decorator created one around the member, which has to be re-bound
            if is_prop:
                setattr(cls, m, property(new, cur.fset, cur.fdel))
            else:
                setattr(cls, m, new)
        # otherwise the decorator added the contract to the existing checker in place and returned that (inner) checker;
        # the member stays bound to its outermost wrapper (re-binding the returned checker would strip the invariant wrapper)
        self.world.contracts[sid] = dec._contract
        return sid

    def _append(self, step):
        unit = step["unit"]
        role = step["role"]
        if "." in unit:
            cname, m = unit.split(".")
            f = self._func_of(self.world.classes[cname], m)[0][1]
            params = ("t",)
        else:
            f = self.world.funcs[unit]
            params = ("t",)
        ck = _ck.find_checker(f)
        if ck is None:
            raise core.HarnessError("append to a unit without checker")
        n = len([s for s in self.world.contracts if s.startswith("%s/%s" % (unit, role))])
        sid = "%s/%s%d" % (unit, role, n + 10)
        if role == "pre":
            cond = self.world._fn("c_" + core._san(sid), params, "sync", sid, "pre")
            c = icontract._types.Contract(condition=cond, description="[[%s]]" % sid)
            _ck.add_precondition_to_checker(ck, c)
        else:
            has_old = bool(ck.__postcondition_snapshots__)
            cond = self.world._fn("c_" + core._san(sid), params + ("result",), "sync", sid, "post")
            c = icontract._types.Contract(condition=cond, description="[[%s]]" % sid)
            _ck.add_postcondition_to_checker(ck, c)
        self.world.contracts[sid] = c
        return sid
