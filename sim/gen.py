"""Seeded generation of worlds and tickets (the only place a PRNG is used)."""
import random

ERROR_FORMS = ["default", "default", "default", "class", "class", "instance", "instance", "factory", "factory", "falsy_instance"]
EXC_FAULTS = ["FaultError", "FaultBase", "KeyboardInterrupt", "SystemExit", "GeneratorExit", "RecursionError", "MemoryError", "AssertionError", "KeyError", "AttributeError", "TypeError"]


def rng_for(seed, prop, i):
    return random.Random("%s:%s:%s" % (seed, prop, i))


def gen_contract(r, is_async, allow_forms=True):
    c = {}
    if is_async:
        c["style"] = r.choice(["sync", "async", "async", "corolambda", "awaitable"])
    if allow_forms:
        e = r.choice(ERROR_FORMS)
        if e != "default":
            c["error"] = e
        if r.random() < 0.12:
            # the condition is not a plain function: a functools.partial binding an extra keyword, or a callable object
            c["callform"] = r.choice(["partial", "object"])
    return c


def gen_unit_spec(r, name, is_async, max_pre=3, max_post=2, max_snap=2, forms=True, kind=None):
    u = {"name": name}
    if is_async:
        u["async"] = True
    if kind:
        u["kind"] = kind
    if kind is None and r.random() < 0.2:
        u["kwargs"] = True  # the function also accepts **kwargs (reserved names may then be passed by a caller)
    u["pre"] = [gen_contract(r, is_async, forms) for _ in range(r.randint(0, max_pre))]
    u["post"] = [gen_contract(r, is_async, forms) for _ in range(r.randint(0, max_post))]
    for c in u["post"]:
        if c.get("error") == "factory" and r.random() < 0.5:
            c["err_params"] = r.choice([["OLD"], ["result"], ["OLD", "result"], ["t"]])
        if r.random() < 0.3:
            c["no_old"] = True  # the condition itself does not name OLD (an error factory still may)
    if u["post"]:
        u["snaps"] = [({"style": r.choice(["sync", "async", "corolambda", "awaitable"])} if is_async else {}) for _ in range(r.randint(0, max_snap))]
    return u


def gen_world(r, is_async, nfuncs=(1, 2), with_class=0.6, forms=True, async_methods=None, max_invs=2, mixed=False, subclass=0.0, setattr_invs=False):
    w = {"funcs": [], "classes": [], "objects": []}
    for i in range(r.randint(*nfuncs)):
        fa = is_async and not (mixed and r.random() < 0.4)
        w["funcs"].append(gen_unit_spec(r, "f%d" % i, fa, forms=forms))
    if r.random() < with_class:
        am = is_async if async_methods is None else async_methods
        cs = {"name": "K0", "init": {"super": "first"}, "methods": [], "invs": []}
        for i in range(r.randint(1, 2)):
            cs["methods"].append(gen_unit_spec(r, "m%d" % i, am, max_pre=2, max_post=1, max_snap=1, forms=forms, kind="method"))
        for i in range(r.randint(0, max_invs)):
            inv = {"check_on": r.choice(["CALL", "CALL", "ALL", "SETATTR"] if setattr_invs else ["CALL", "CALL", "ALL"])}
            e = r.choice(ERROR_FORMS) if forms else "default"
            if e != "default":
                inv["error"] = e
            cs["invs"].append(inv)
        w["classes"].append(cs)
        for i in range(r.randint(1, 2)):
            o = {"name": "o%d" % i, "cls": "K0"}
            if cs["invs"] and r.random() < 0.4:
                o["flags"] = {"K0/inv%d" % r.randrange(len(cs["invs"])): False}
            w["objects"].append(o)
        if r.random() < subclass:
            k1 = {"name": "K1", "base": "K0", "methods": [], "invs": []}
            if r.random() < 0.5:
                k1["init"] = {"super": r.choice(["first", "last"])}
            for m in cs["methods"]:
                if r.random() < 0.6:
                    # an override may add preconditions only if the base declares some (Liskov)
                    ov = gen_unit_spec(r, m["name"], bool(m.get("async")), max_pre=2 if m.get("pre") else 0, max_post=1, max_snap=1, forms=forms, kind="method")
                    k1["methods"].append(ov)
            if r.random() < 0.4:
                k1["methods"].append(gen_unit_spec(r, "m9", am, max_pre=1, max_post=1, max_snap=0, forms=forms, kind="method"))
            for i in range(r.randint(0, 1)):
                k1["invs"].append({"check_on": r.choice(["CALL", "ALL", "SETATTR"] if setattr_invs else ["CALL", "ALL"])})
            w["classes"].append(k1)
            o = {"name": "o9", "cls": "K1"}
            w["objects"].append(o)
    return w


def units_of(world):
    """All callable (fn, obj) targets with their spec, owner name and async flag (inheritance-aware)."""
    res = []
    for f in world.get("funcs", ()):
        res.append({"fn": f["name"], "obj": None, "owner": f["name"], "spec": f, "async": bool(f.get("async")), "invs": [], "chain": [(f["name"], f)]})
    cspec = {c["name"]: c for c in world.get("classes", ())}

    def mro(cname):
        out = []
        while cname:
            out.append(cspec[cname])
            cname = cspec[cname].get("base")
        return out  # most derived first

    for o in world.get("objects", ()):
        chain_cls = mro(o["cls"])
        invs = []
        for c in reversed(chain_cls):
            invs += ["%s/inv%d" % (c["name"], i) for i in range(len(c.get("invs", ())))]
        names = []
        for c in chain_cls:
            for m in c.get("methods", ()):
                if m.get("kind", "method") == "method" and m["name"] not in names:
                    names.append(m["name"])
        for mn in names:
            chain = []
            for c in reversed(chain_cls):
                for m in c.get("methods", ()):
                    if m["name"] == mn and m.get("kind", "method") == "method":
                        chain.append(("%s.%s" % (c["name"], mn), m))
            owner, spec = chain[-1]
            res.append({"fn": mn, "obj": o["name"], "owner": owner, "spec": spec, "async": bool(spec.get("async")), "invs": invs, "chain": chain})
    return res


def site_ids(u):
    ids = []
    chain = u.get("chain") or [(u["owner"], u["spec"])]
    for role, key in (("pre", "pre"), ("snaps", "snap"), ("post", "post")):
        for owner, s in chain:
            if role == "snaps" and not s.get("post"):
                continue
            for i, c in enumerate(s.get(role, ())):
                ids.append(("%s/%s%d" % (owner, key, i), key, c))
    return ids


def gen_pause(r, density):
    if r.random() < density:
        a = r.choice([0, 0, 1, 1, 2, 3])
        b = r.choice([None, None, 0, 1]) if r.random() < 0.3 else None
        return [a, b] if b is not None else [a]
    return None


def gen_ticket(r, tid, units, profile, depth=0, u=None):
    """A ticket for one of ``units``; falsy contracts, pauses, nested calls and faults per profile."""
    if u is None:
        u = r.choice(units)
    td = {"id": tid, "fn": u["fn"]}
    if u["obj"] is not None:
        td["obj"] = u["obj"]
    sites = {}
    ids = site_ids(u)
    falsy = None
    cond_ids = [x for x in ids if x[1] in ("pre", "post")]
    if cond_ids and r.random() < profile.get("p_falsy", 0.5):
        falsy = r.choice(cond_ids)[0]
        sites.setdefault(falsy, {})["truth"] = False
        if r.random() < 0.2:
            other = r.choice(cond_ids)[0]
            sites.setdefault(other, {})["truth"] = False
    for sid, kind, c in ids:
        if u["async"] and c.get("style", "sync") != "sync":
            p = gen_pause(r, profile.get("pause_density", 0.6))
            if p is not None:
                sites.setdefault(sid, {})["pause"] = p
    body = {}
    if u["async"]:
        p = gen_pause(r, profile.get("pause_density", 0.6))
        if p is not None:
            body["pause"] = p
    if u.get("invs") and r.random() < profile.get("p_mutate", 0.0):
        body["mutates"] = {r.choice(u["invs"]): r.random() < 0.4}
    # nested calls
    hosts = ids + [(x, "inv", {}) for x in u.get("invs", ())]
    if depth < profile.get("max_depth", 2) and r.random() < profile.get("p_nested", 0.15):
        for k in range(r.randint(1, profile.get("max_fanout", 2))):
            where = r.choice(["site", "site", "body"]) if hosts else "body"
            if where == "site":
                sid, kind, c = r.choice(hosts)
                host_async = u["async"] and c.get("style", "sync") != "sync"
            else:
                sid = None
                host_async = u["async"]
            cands = [x for x in units if host_async or not x["async"]]
            if not cands:
                continue
            if where == "site" and kind != "inv" and r.random() < profile.get("p_self", 0.4) and (host_async or not u["async"]):
                n = {"ref": "SELF"}
            else:
                n = gen_ticket(r, "%s.n%d" % (tid, k), cands, profile, depth + 1)
            if where == "site":
                sites.setdefault(sid, {}).setdefault("nested", []).append(n)
            else:
                body.setdefault("nested", []).append(n)
    # faults
    if r.random() < profile.get("p_fault", 0.0):
        kinds = profile.get("fault_kinds") or ["raise"]
        k = r.choice(kinds)
        where = r.choice(ids + [("body", "body", {})]) if ids else ("body", "body", {})
        sid, kind, c = where
        host_async = u["async"] and (kind == "body" or c.get("style", "sync") != "sync")
        f = None
        if k == "raise":
            f = {"kind": "raise:" + r.choice(EXC_FAULTS)}
        elif k == "bool" and kind in ("pre", "post"):
            f = {"kind": "bool:" + r.choice(["FaultError", "FaultBase", "KeyboardInterrupt"])}
        elif k == "cancel" and host_async:
            f = {"kind": "cancel"}
        elif k == "repr" and kind in ("pre", "post"):
            f = {"kind": "repr:" + r.choice(["FaultError", "FaultBase"])}
            sites.setdefault(sid, {})["truth"] = False
        if f is not None:
            if kind == "body":
                f["pos"] = r.choice(["pre", "post"])
                body["fault"] = f
            else:
                sites.setdefault(sid, {})["fault"] = f
    if u["spec"].get("kwargs") and u["obj"] is None and r.random() < profile.get("p_reserved", 0.2):
        # a caller passing a reserved name as keyword argument (rejected with TypeError where it would clash)
        td["kw"] = {r.choice(["result", "OLD", "_ARGS", "_KWARGS", "other"]): 0}
    if not u["spec"].get("kwargs") and u["obj"] is None and "kw" not in td and r.random() < profile.get("p_badcall", 0.0):
        # a call that does not match the signature (unknown keyword): Python's TypeError, at the point where the function is called
        td["kw"] = {"zzz_unknown": 1}
    if sites:
        td["sites"] = sites
    if body:
        td["body"] = body
    return td
