"""Core of the simulator: runs, actors, tickets, generated worlds, instrumented hand-overs.

Everything a generated application does is decided by *data* (the scenario): the world spec says
which contracted units exist, a ticket says what every hand-over (condition, capture, error
factory, truth test, repr, body, await) does for one call.  Executing a scenario draws nothing
from a PRNG and reads no clock, so a scenario is its own replay file.

The real library is used throughout: ``icontract`` is imported from /repo's working tree.
"""
import asyncio
import contextvars
import hashlib
import json
import re
import sys

import icontract
import icontract._checkers as _ck

SELF = "SELF"
MAX_DEPTH = 70
MAX_EVENTS = 6000

_ACTOR = contextvars.ContextVar("verif_actor", default=None)


class HarnessError(Exception):
    """A defect of the harness itself; never reported as a violation."""


class Abort(BaseException):
    """Raised by the harness when a per-run cap is exceeded (depth, events)."""


class FaultError(Exception):
    """Injected Exception-level fault."""


class FaultBase(BaseException):
    """Injected BaseException-level fault."""


class ContractErr(Exception):
    """The error object of a generated contract with a non-default ``error`` form."""

    def __init__(self, *a):
        super().__init__(*a)
        self.sid = None


class FalsyContractErr(ContractErr):
    """A contract error whose instances are falsy."""

    def __bool__(self):
        return False


FAULT_CLASSES = {
    "FaultError": FaultError,
    "FaultBase": FaultBase,
    "KeyboardInterrupt": KeyboardInterrupt,
    "SystemExit": SystemExit,
    "GeneratorExit": GeneratorExit,
    "RecursionError": RecursionError,
    "MemoryError": MemoryError,
    "AssertionError": AssertionError,
    "KeyError": KeyError,
    "AttributeError": AttributeError,
    "TypeError": TypeError,
    "StopIteration": StopIteration,
    "CancelledError": asyncio.CancelledError,
}


class _Handle:
    """An awaitable value (job handle) returned by a generated body."""

    __slots__ = ("name",)

    def __init__(self, name):
        self.name = name

    def __await__(self):
        return Label("awaited:" + self.name)
        yield  # pylint: disable=unreachable


class Label:
    """The object a generated body returns (identity is checked at the caller)."""

    __slots__ = ("name",)

    def __init__(self, name):
        self.name = name

    def __repr__(self):
        return "L<%s>" % self.name


class Tv:
    """A condition result whose truth test may fail (fault kind ``bool:*``)."""

    __slots__ = ("run", "truth", "exc")

    def __init__(self, run, truth, exc):
        self.run = run
        self.truth = truth
        self.exc = exc

    def __bool__(self):
        if self.exc is not None:
            e = self.exc
            self.exc = None
            self.run.fired(e)
            raise e
        return self.truth

    def __repr__(self):
        return "Tv(%s)" % self.truth


class T:
    """The single domain argument of every generated callable: a view of the running ticket."""

    __slots__ = ("tx",)

    def __init__(self, tx):
        self.tx = tx

    def __repr__(self):
        tx = self.tx
        if tx.repr_armed is not None:
            e = tx.repr_armed
            tx.repr_armed = None
            tx.run.ev("repr", None, tx.xid, None)
            tx.run.fired(e)
            raise e
        return "T<%s>" % tx.td["id"]


class TX:
    """One execution of a ticket."""

    __slots__ = ("run", "td", "xid", "top", "occ", "cnt", "unit", "obj", "repr_armed", "ret_obj", "t", "checked", "outcome", "kinds", "stack_at_call", "info", "bodies")

    def __init__(self, run, td, top):
        self.run = run
        self.td = td
        self.top = top if top is not None else self
        if top is None:
            self.occ = {}
            self.cnt = {}
        else:
            self.occ = None
            self.cnt = None
        c = self.top.cnt
        k = c.get(td["id"], 0)
        c[td["id"]] = k + 1
        self.xid = "%s#%d" % (td["id"], k)
        self.unit = None
        self.obj = None
        self.repr_armed = None
        self.ret_obj = None
        self.t = T(self)
        self.checked = False
        self.outcome = None
        self.kinds = set()
        self.stack_at_call = ()
        self.info = None
        self.bodies = 0


class Actor:
    __slots__ = ("name", "stack", "tstack", "run")

    def __init__(self, run, name):
        self.run = run
        self.name = name
        self.stack = []  # shadow stack of frames (kind, unit, obj, sid)
        self.tstack = []  # ticket executions in flight


FRAME_OF = {"pre": "ceval", "post": "ceval", "snap": "ceval", "err": "ceval", "inv": "inv", "inverr": "inv"}

_LOC_RE = re.compile(r"\[\[(.+?)\]\]")


def _san(s):
    return re.sub(r"[^A-Za-z0-9_]", "_", s)


class Run:
    """One simulated run: the world, the actors, the global event log."""

    def __init__(self, world_spec):
        self.log = []
        self.actors = {}
        self.idmap = {}
        self.outcomes = {}  # xid-path -> outcome dict
        self.order = []  # keys of outcomes in completion order
        self.faults_fired = {}
        self.fired_excs = []
        self.pending = []
        self.handed = []
        self.hooks = {}
        self.ga_armed = {}
        self.spawned = 0
        self.foreign_close = None
        self.max_events = MAX_EVENTS
        self.actor_by_task = False
        self.states = set()  # distinct (normalised suspension state, shadow-stack shape) pairs seen at hand-overs
        self.side = {}  # id(obj) -> [obj, label, flags]  (for objects that cannot carry attributes)
        self.inv_during_ctor = []
        self.txs = []
        self.injected = []
        self.suspensions = 0
        self.cancel_fired_tx = None
        self.thrown_tx = None
        self.cancel_plan = None  # {"top": top-level ticket id, "p": n} -> self-cancel at the n-th suspension of that call
        self.sleep = asyncio.sleep
        self.yield_hook = None  # ThreadSim installs a pre-emption callback here
        self.marker_ok = True
        self.aborted = None
        self.notes = []
        self.world = World(self, world_spec)

    # -- actors -------------------------------------------------------------------------------
    def enter_actor(self, name):
        a = self.actors.get(name)
        if a is None:
            a = Actor(self, name)
            self.actors[name] = a
        _ACTOR.set(a)
        return a

    def actor(self):
        if self.actor_by_task and asyncio._get_running_loop() is not None:
            # tasks deliberately given ONE shared Context cannot be told apart by a context variable: use the task's name
            t = asyncio.current_task()
            if t is not None:
                b = self.actors.get(t.get_name())
                if b is not None:
                    return b
        a = _ACTOR.get()
        if a is None or a.run is not self:
            raise HarnessError("hand-over outside an actor of this run")
        return a

    # -- objects ------------------------------------------------------------------------------
    def register(self, obj, label, flags):
        fl = dict(flags or {})
        try:
            object.__setattr__(obj, "_flags", fl)
            object.__setattr__(obj, "_label", label)
        except (AttributeError, TypeError):
            pass
        self.side[id(obj)] = [obj, label, fl]
        self.world.objects[label] = obj
        self.idmap[id(obj)] = label

    def label_of(self, obj):
        e = self.side.get(id(obj))
        if e is not None and e[0] is obj:
            return e[1]
        try:
            return obj.__dict__.get("_label")
        except AttributeError:
            return None

    def flags_of(self, obj):
        e = self.side.get(id(obj))
        if e is not None and e[0] is obj:
            return e[2]
        try:
            return obj.__dict__.get("_flags")
        except AttributeError:
            return None

    # -- log ----------------------------------------------------------------------------------
    def ev(self, kind, sid, xid, detail):
        a = self.actor() if self.actor_by_task else _ACTOR.get()
        n = len(self.log)
        if n >= self.max_events:
            self.aborted = "events"
            raise Abort("events")
        self.log.append((n, a.name if a is not None else "-", kind, sid, xid, detail))

    def fired(self, exc):
        k = getattr(exc, "verif_kind", "?")
        self.faults_fired[k] = self.faults_fired.get(k, 0) + 1
        self.fired_excs.append(exc)

    def digest(self):
        h = hashlib.sha256()
        h.update(json.dumps(self.log, sort_keys=True, default=str).encode())
        h.update(json.dumps([(k, self.outcomes[k]["verdict"]) for k in self.order], sort_keys=True).encode())
        return h.hexdigest()[:16]

    # -- suspension state, observed from outside (diagnostic) ------------------------------------
    def marker(self):
        try:
            v = _ck._IN_PROGRESS.get()
        except Exception:  # pylint: disable=broad-except
            self.marker_ok = False
            return None
        if v is None:
            return ()
        if isinstance(v, (set, frozenset)):
            try:
                return tuple(sorted(self.idmap.get(i, "?") for i in v))
            except TypeError:
                self.marker_ok = False
                return None
        self.marker_ok = False
        return None

    def marker_obj(self):
        try:
            return _ck._IN_PROGRESS.get()
        except Exception:  # pylint: disable=broad-except
            return None

    # -- faults -------------------------------------------------------------------------------
    def make_fault(self, tx, sid, kind):
        name = kind.split(":", 1)[1]
        cls = FAULT_CLASSES[name]
        e = cls("fault@%s" % sid)
        e.verif_fault = (tx.xid, sid, kind)
        e.verif_kind = kind
        e.verif_tx = tx
        self.injected.append(e)
        return e

    # -- hand-overs ---------------------------------------------------------------------------
    def _enter(self, sid, kind, obj):
        a = self.actor()
        if not a.tstack:
            raise HarnessError("site %s hit outside a call" % sid)
        tx = a.tstack[-1]
        occ = tx.top.occ
        key = (tx.xid, sid)
        k = occ.get(key, 0)
        occ[key] = k + 1
        cfg = tx.td.get("sites", {}).get(sid) or {}
        olabel = None
        if obj is not None:
            olabel = self.label_of(obj) or "<unbuilt>"
            if kind == "inv":
                for fr in a.stack:
                    if fr[0] == "ctor" and fr[2] == olabel:
                        self.inv_during_ctor.append((tx.xid, sid, olabel))
                        break
        self.ev(kind, sid, tx.xid, olabel if olabel is not None else k)
        if len(a.stack) >= MAX_DEPTH:
            self.aborted = "depth"
            raise Abort("depth")
        a.stack.append((FRAME_OF[kind], tx.unit, olabel, sid))
        self.states.add((self.marker(), tuple(fr[0] for fr in a.stack)))
        tx.checked = True
        tx.kinds.add(kind)
        f = cfg.get("fault")
        if f is not None and f.get("occ", 0) != k:
            f = None
        return a, tx, cfg, f

    def _truth(self, kind, sid, cfg, obj):
        if kind == "inv":
            fl = self.flags_of(obj)
            if fl is None:
                return True
            return bool(fl.get(sid, True))
        return bool(cfg.get("truth", True))

    def _pre_fault(self, tx, sid, f, obj=None):
        k = f["kind"]
        if k.startswith("raise:"):
            e = self.make_fault(tx, sid, k)
            self.fired(e)
            raise e
        if k.startswith("repr:"):
            if obj is not None:
                # invariant messages render ``self``: arm the object's __repr__
                object.__setattr__(obj, "_repr_armed", self.make_fault(tx, sid, k))
            else:
                tx.repr_armed = self.make_fault(tx, sid, k)

    def _result(self, tx, sid, kind, cfg, f, obj):
        truth = self._truth(kind, sid, cfg, obj)
        if f is not None and f["kind"].startswith("bool:"):
            return Tv(self, truth, self.make_fault(tx, sid, f["kind"]))
        if kind == "snap":
            return ("old", sid)
        return truth

    def hit(self, sid, kind, obj=None):
        """A sync hand-over from the library into generated user code."""
        a, tx, cfg, f = self._enter(sid, kind, obj)
        try:
            if self.yield_hook is not None:
                self.yield_hook(a)
            if f is not None:
                self._pre_fault(tx, sid, f, obj if kind == "inv" else None)
            for n in cfg.get("nested", ()):
                self.nested(a, tx, n)
            return self._result(tx, sid, kind, cfg, f, obj)
        finally:
            a.stack.pop()

    async def ahit(self, sid, kind, obj=None):
        """An async hand-over (async condition / capture / coroutine-returning lambda)."""
        a, tx, cfg, f = self._enter(sid, kind, obj)
        try:
            p = cfg.get("pause")
            if p is not None and p[0] is not None:
                await self._pause(a, tx, sid, p[0])
            if f is not None:
                if f["kind"] == "cancel":
                    await self._self_cancel(tx, sid)
                else:
                    self._pre_fault(tx, sid, f)
            for n in cfg.get("nested", ()):
                await self.anested(a, tx, n)
            if p is not None and len(p) > 1 and p[1] is not None:
                await self._pause(a, tx, sid, p[1])
            return self._result(tx, sid, kind, cfg, f, obj)
        finally:
            a.stack.pop()

    async def _pause(self, a, tx, sid, d):
        a = self.actor()
        self.ev("await", sid, tx.xid, d)
        cp = self.cancel_plan
        if cp is not None and tx.top.td["id"] == cp["top"]:
            k = cp.get("seen", 0)
            cp["seen"] = k + 1
            if k == cp["p"]:
                self.faults_fired["cancel@await"] = self.faults_fired.get("cancel@await", 0) + 1
                cp["fired"] = tx.xid
                self.cancel_fired_tx = tx
                asyncio.current_task().cancel()
        self.suspensions += 1
        await self.sleep(d)
        if self.actor() is not a:
            raise HarnessError("actor changed across await")
        self.ev("resume", sid, tx.xid, d)

    async def _self_cancel(self, tx, sid):
        task = asyncio.current_task()
        e = asyncio.CancelledError
        self.faults_fired["cancel"] = self.faults_fired.get("cancel", 0) + 1
        self.ev("cancel", sid, tx.xid, None)
        task.cancel()
        await self.sleep(0)

    def hit_err(self, sid, kind, obj=None):
        """An error factory being called (a hand-over); returns the exception to raise."""
        base = sid[: -len("/err")]
        self.hit(sid, kind, obj)
        e = ContractErr("[[%s]] factory" % base)
        e.sid = base
        return e

    # -- bodies -------------------------------------------------------------------------------
    def _body_enter(self, obj, is_ctor):
        a = self.actor()
        if not a.tstack:
            raise HarnessError("body entered outside a call")
        tx = a.tstack[-1]
        cfg = tx.td.get("body") or {}
        if is_ctor and obj is not None and self.label_of(obj) is None:
            # the outermost generated constructor body registers the object
            self.register(obj, tx.td.get("obj"), tx.td.get("flags"))
        olabel = self.label_of(obj) if obj is not None else None
        key = (tx.xid, "body")
        occ = tx.top.occ
        k = occ.get(key, 0)
        occ[key] = k + 1
        self.ev("body", None, tx.xid, olabel)
        tx.bodies += 1
        if len(a.stack) >= MAX_DEPTH:
            self.aborted = "depth"
            raise Abort("depth")
        a.stack.append(("ctor" if is_ctor else "body", tx.unit, olabel, None))
        f = cfg.get("fault")
        if f is not None and f.get("occ", 0) != k:
            f = None
        return a, tx, cfg, f

    def _body_exit(self, tx, cfg, obj):
        m = cfg.get("mutates")
        if m and obj is not None:
            fl = self.flags_of(obj)
            if fl is not None:
                fl.update(m)
        self.ev("body_exit", None, tx.xid, None)
        if cfg.get("returns") == "none":
            return None
        if cfg.get("returns") == "handle":
            # the callable's VALUE is an awaitable (a job handle, a future): it is handed back as it is, not awaited by anybody
            return _Handle(tx.xid)
        r = Label(tx.xid)
        tx.ret_obj = r
        return r

    def body(self, obj=None, is_ctor=False):
        a, tx, cfg, f = self._body_enter(obj, is_ctor)
        try:
            if self.yield_hook is not None:
                self.yield_hook(a)
            if f is not None and f.get("pos", "pre") == "pre":
                self._pre_fault(tx, "body", f)
            for n in cfg.get("nested", ()):
                self.nested(a, tx, n)
            if f is not None and f.get("pos", "pre") == "post":
                self._pre_fault(tx, "body", f)
            return self._body_exit(tx, cfg, obj)
        finally:
            a.stack.pop()

    async def abody(self, obj=None):
        a, tx, cfg, f = self._body_enter(obj, False)
        try:
            p = cfg.get("pause")
            if p is not None and p[0] is not None:
                await self._pause(a, tx, "body", p[0])
            if f is not None and f.get("pos", "pre") == "pre":
                if f["kind"] == "cancel":
                    await self._self_cancel(tx, "body")
                else:
                    self._pre_fault(tx, "body", f)
            for n in cfg.get("nested", ()):
                await self.anested(a, tx, n)
            if p is not None and len(p) > 1 and p[1] is not None:
                await self._pause(a, tx, "body", p[1])
            if f is not None and f.get("pos", "pre") == "post":
                if f["kind"] == "cancel":
                    await self._self_cancel(tx, "body")
                else:
                    self._pre_fault(tx, "body", f)
            return self._body_exit(tx, cfg, obj)
        finally:
            a.stack.pop()

    # -- calls --------------------------------------------------------------------------------
    def _td_of(self, tx, n):
        if n == SELF or (isinstance(n, dict) and n.get("ref") == SELF):
            return tx.td
        return n

    def spawn(self, n):
        """Fire-and-forget: an async call started in a COPY of the current context (what ``create_task`` does), advanced to its
        k-th suspension and left pending there.  ``close_pending`` later closes it from whatever context is current then
        (what the garbage collector does to a pending task nobody refers to)."""
        ctx = contextvars.copy_context()
        self.spawned += 1
        name = "spawn%d" % self.spawned
        td = dict(n["spawn"], id="%s.%d" % (n["spawn"]["id"], self.spawned))  # a host that runs several times spawns several calls

        def start():
            self.enter_actor(name)
            return self.acall(td)

        coro = ctx.run(start)
        done = False
        for _ in range(max(1, int(n.get("steps", 1)))):
            try:
                ctx.run(coro.send, None)
            except StopIteration:
                done = True
                break
        self.pending.append((name, coro, done))
        self.ev("spawned", None, None, [name, done])

    def close_pending(self):
        """Close every pending fire-and-forget coroutine in the CURRENT context; returns how many were still suspended."""
        n = 0
        before = self.marker()
        for name, coro, done in self.pending:
            if not done:
                n += 1
                self.faults_fired["close_foreign"] = self.faults_fired.get("close_foreign", 0) + 1
                coro.close()
        self.pending = []
        self.foreign_close = (before, self.marker(), n)
        self.ev("closed_foreign", None, None, n)
        return n

    def nested(self, a, tx, n):
        if isinstance(n, dict) and "spawn" in n:
            return self.spawn(n)
        if isinstance(n, dict) and "hook" in n:
            h = self.hooks.get(n["hook"])
            return h() if h is not None else None
        td = self._td_of(tx, n)
        if self.world.is_async(td):
            raise HarnessError("sync hand-over cannot call async unit")
        out = self.call(td, parent=tx)
        exc = out.get("exc_obj")
        if exc is not None and (not isinstance(exc, Exception) or (isinstance(n, dict) and n.get("propagate"))):
            raise exc

    async def anested(self, a, tx, n):
        if isinstance(n, dict) and "spawn" in n:
            return self.spawn(n)
        if isinstance(n, dict) and "hook" in n:
            h = self.hooks.get(n["hook"])
            r_ = h() if h is not None else None
            if r_ is not None and hasattr(r_, "__await__"):
                await r_
            return None
        td = self._td_of(tx, n)
        if self.world.is_async(td):
            out = await self.acall(td, parent=tx)
        else:
            out = self.call(td, parent=tx)
        exc = out.get("exc_obj")
        if exc is not None and (not isinstance(exc, Exception) or (isinstance(n, dict) and n.get("propagate"))):
            raise exc

    def _begin(self, td, parent):
        a = self.actor()
        top = parent.top if parent is not None else None
        tx = TX(self, td, top)
        thunk, unit, olabel = self.world.resolve(tx)
        tx.unit = unit
        tx.obj = olabel
        tx.stack_at_call = tuple(a.stack)
        self.txs.append(tx)
        self.ev("call", unit, tx.xid, olabel)
        a.tstack.append(tx)
        a.stack.append(("call", unit, olabel, tx.xid))
        return a, tx, thunk

    def _end(self, a, tx, r, exc, before):
        a.stack.pop()
        a.tstack.pop()
        if r is not None and hasattr(r, "cr_frame") and hasattr(r, "send"):
            self.handed.append(r)  # a coroutine handed back by a sync call: somebody else may await it later
        after = self.marker()
        if exc is not None:
            verdict = verdict_of_exc(exc)
        elif r is None:
            verdict = ["ret", "none"]
        elif r is tx.ret_obj:
            verdict = ["ret", "own"]
        elif isinstance(r, Label):
            verdict = ["ret", "foreign:" + r.name]
        else:
            verdict = ["ret", type(r).__name__]
        key = tx.top.xid + "|" + tx.xid if tx.top is not tx else tx.xid
        if key in self.outcomes:
            raise HarnessError("duplicate execution id " + key)
        out = {
            "verdict": verdict,
            "before": before,
            "after": after,
            "checked": tx.checked,
            "unit": tx.unit,
            "obj": tx.obj,
            "actor": a.name,
            "exc_obj": exc,
            "depth": len(a.tstack),
        }
        self.outcomes[key] = out
        tx.outcome = out
        self.order.append(key)
        self.ev("return", tx.unit, tx.xid, verdict)
        tx.repr_armed = None
        if tx.obj is not None:
            o = self.world.objects.get(tx.obj)
            if o is not None and getattr(o, "__dict__", {}).get("_repr_armed") is not None:
                object.__setattr__(o, "_repr_armed", None)
        return out

    def call(self, td, parent=None):
        a, tx, thunk = self._begin(td, parent)
        before = self.marker()
        r = None
        exc = None
        try:
            r = thunk()
        except Abort:
            a.stack.pop()
            a.tstack.pop()
            raise
        except HarnessError:
            raise
        except BaseException as e:  # pylint: disable=broad-except
            exc = e
        return self._end(a, tx, r, exc, before)

    async def acall(self, td, parent=None):
        a, tx, thunk = self._begin(td, parent)
        before = self.marker()
        r = None
        exc = None
        try:
            r = await thunk()
        except Abort:
            a.stack.pop()
            a.tstack.pop()
            raise
        except HarnessError:
            raise
        except BaseException as e:  # pylint: disable=broad-except
            exc = e
        return self._end(a, tx, r, exc, before)

    def public_outcomes(self):
        """Outcomes without live exception objects (JSON-serialisable)."""
        res = {}
        for k in self.order:
            o = dict(self.outcomes[k])
            o.pop("exc_obj", None)
            res[k] = o
        return res


def verdict_of_exc(e):
    f = getattr(e, "verif_fault", None)
    if f is not None:
        return ["fault", type(e).__name__, f[1]]
    sid = getattr(e, "sid", None)
    msg = None
    if sid is None:
        try:
            s = str(e)
        except Exception:  # pylint: disable=broad-except
            s = ""
        m = _LOC_RE.search(s)
        if m:
            sid = m.group(1)
        else:
            s = re.sub(r"File .*?, line \d+ in \S+:?\n?", "", s)
            s = re.sub(r"0x[0-9a-fA-F]+", "0x?", s)
            s = re.sub(r"\d+", "N", s)
            msg = s[:48]
    chain = []
    c = e.__cause__
    n = 0
    while c is not None and n < 4:
        cf = getattr(c, "verif_fault", None)
        chain.append(type(c).__name__ + ("@" + cf[1] if cf else ""))
        c = c.__cause__
        n += 1
    return ["exc", type(e).__name__, sid, msg, chain]


# ---------------------------------------------------------------------------------------------
# Worlds
# ---------------------------------------------------------------------------------------------

_CHECK_ON = {
    "CALL": icontract.InvariantCheckEvent.CALL,
    "SETATTR": icontract.InvariantCheckEvent.SETATTR,
    "ALL": icontract.InvariantCheckEvent.ALL,
}


class World:
    """A generated application built from a JSON spec, using the real decorators/metaclass."""

    def __init__(self, run, spec):
        self.run = run
        self.spec = spec
        self.funcs = {}
        self.fspec = {}
        self.classes = {}
        self.cspec = {}
        self.objects = {}
        self.contracts = {}  # sid -> the Contract/Snapshot object created for it
        for fs in spec.get("funcs", ()):
            self.add_func(fs)
        for cs in spec.get("classes", ()):
            self.add_class(cs)

    def add_func(self, fs):
        f = self._build_func(fs)
        self.funcs[fs["name"]] = f
        self.fspec[fs["name"]] = fs
        return f

    def add_class(self, cs):
        cls = self._build_class(cs)
        self.cspec[cs["name"]] = cs
        self.classes[cs["name"]] = cls
        return cls

    # -- contract pieces ----------------------------------------------------------------------
    def _error_kw(self, sid, form, for_inv, fparams=()):
        run = self.run
        if form in (None, "default"):
            return {}
        if form == "class":
            cls = type("E_" + _san(sid), (ContractErr,), {})

            def _init(self, *a, _sid=sid):
                ContractErr.__init__(self, *a)
                self.sid = _sid

            cls.__init__ = _init
            return {"error": cls}
        if form == "instance":
            e = ContractErr("[[%s]] instance" % sid)
            e.sid = sid
            return {"error": e}
        if form == "falsy_instance":
            # an exception object whose truth value is False (e.g. an exception type that is also an empty container)
            e = FalsyContractErr("[[%s]] falsy instance" % sid)
            e.sid = sid
            return {"error": e}
        if form == "factory":
            if for_inv:

                def err(self):
                    return run.hit_err(sid + "/err", "inverr", self)

            elif fparams:
                # an error factory naming some of the call's values (e.g. OLD or result of a postcondition)
                ns = {"_mk": lambda: run.hit_err(sid + "/err", "err")}
                exec("def err(%s):\n    return _mk()\n" % ", ".join(fparams), ns)  # pylint: disable=exec-used
                err = ns["err"]
            else:

                def err():
                    return run.hit_err(sid + "/err", "err")

            return {"error": err}
        raise HarnessError("unknown error form %r" % form)

    def _fn(self, name, params, style, sid, kind, old_names=(), callform=None):
        """A generated condition/capture with the given parameter names that hands over to run.hit/ahit.  ``callform``: the
        callable is handed to the decorator as a ``functools.partial`` (binding an extra keyword) or as an instance of a class
        with ``__call__`` instead of a plain function."""
        fn = self._fn_plain(name, tuple(params) + (("_k",) if callform == "partial" else ()), style, sid, kind, old_names)
        if callform == "partial":
            import functools

            return functools.partial(fn, _k=1)
        if callform == "object":
            import inspect as _inspect

            if _inspect.iscoroutinefunction(fn):

                class _CallableCondition:
                    async def __call__(self_, *args, **kwargs):
                        return await fn(*args, **kwargs)

            else:

                class _CallableCondition:
                    def __call__(self_, *args, **kwargs):
                        return fn(*args, **kwargs)

            o = _CallableCondition()
            sig = _inspect.signature(fn)
            # the signature a class with an explicit ``__call__(self, <params>)`` would have
            _CallableCondition.__call__.__signature__ = sig.replace(parameters=[_inspect.Parameter("self_", _inspect.Parameter.POSITIONAL_OR_KEYWORD)] + list(sig.parameters.values()))
            return o
        return fn

    def _fn_plain(self, name, params, style, sid, kind, old_names=()):
        run = self.run
        ns = {"_hit": lambda: run.hit(sid, kind), "_ahit": lambda: run.ahit(sid, kind)}
        plist = ", ".join(params)
        if "OLD" in params and old_names:
            # a postcondition with OLD reads every snapshot of its own function and records whether it sees the captured value
            def _see(OLD):
                seen = []
                for nm, snap_sid in old_names:
                    try:
                        v = getattr(OLD, nm)
                        seen.append([nm, v == ("old", snap_sid)])
                    except AttributeError:
                        seen.append([nm, "missing"])
                a = run.actor()
                run.ev("old", sid, a.tstack[-1].xid if a.tstack else None, seen)

            ns["_see"] = _see
            if style == "sync":
                src = "def %s(%s):\n    _see(OLD)\n    return _hit()\n" % (name, plist)
            elif style == "async":
                src = "async def %s(%s):\n    _see(OLD)\n    return await _ahit()\n" % (name, plist)
            elif style == "awaitable":
                ns["_Aw"] = _Awaitable
                src = "def %s(%s):\n    _see(OLD)\n    return _Aw(_ahit())\n" % (name, plist)
            else:
                src = "def %s(%s):\n    _see(OLD)\n    return _ahit()\n" % (name, plist)
            exec(src, ns)  # pylint: disable=exec-used
            return ns[name]
        if style == "sync":
            src = "def %s(%s):\n    return _hit()\n" % (name, plist)
        elif style == "async":
            src = "async def %s(%s):\n    return await _ahit()\n" % (name, plist)
        elif style in ("awaitable", "marked"):
            # the condition returns an awaitable that is not a coroutine (as asyncio.gather(...) or a Future would be)
            ns["_Aw"] = _Awaitable
            src = "def %s(%s):\n    return _Aw(_ahit())\n" % (name, plist)
        else:
            src = "def %s(%s):\n    return _ahit()\n" % (name, plist)
        exec(src, ns)  # pylint: disable=exec-used
        if style == "marked":
            # ... and is declared a coroutine function by an adapter (inspect.markcoroutinefunction, as sync-to-async bridges do)
            import inspect as _inspect

            return _inspect.markcoroutinefunction(ns[name])
        return ns[name]

    @staticmethod
    def _enabled_kw(c):
        """``enabled`` form of a contract spec: absent/true -> True (explicit), default -> argument omitted, false, slow."""
        e = c.get("enabled", "true")
        if e == "true":
            return {"enabled": True}
        if e == "false":
            return {"enabled": False}
        if e == "slow":
            return {"enabled": icontract.SLOW}
        if e == "default":
            return {}
        raise HarnessError("unknown enabled form %r" % e)

    def _decorate(self, raw, owner, spec, params=("t",)):
        """Apply ensure / snapshot / require decorators of ``spec`` to ``raw`` (nearest first)."""
        fn = raw
        post = spec.get("post", ())
        snaps = spec.get("snaps", ()) if (post or spec.get("force_snaps")) else ()
        has_old = (bool(snaps) or bool(spec.get("old_inherited"))) and not spec.get("no_old")
        pparams = tuple(params) + ("result",) + (("OLD",) if has_old else ())
        old_names = [(sn.get("name") or ("s_" + _san("%s/snap%d" % (owner, i))), "%s/snap%d" % (owner, i)) for i, sn in enumerate(snaps) if not sn.get("omit") and sn.get("enabled", "true") == "true"]
        for i, c in enumerate(post):
            sid = "%s/post%d" % (owner, i)
            if c.get("omit"):
                continue
            cparams = tuple(x for x in pparams if x != "OLD") if c.get("no_old") else pparams
            dec = icontract.ensure(
                self._fn("c_" + _san(sid), cparams, c.get("style", "sync"), sid, "post", old_names, callform=c.get("callform")),
                description="[[%s]]" % sid,
                **self._enabled_kw(c),
                **self._error_kw(sid, c.get("error"), False, tuple(x for x in (c.get("err_params") or ()) if x in pparams))
            )
            fn = dec(fn)
            self.contracts[sid] = dec._contract
        for i, sn in enumerate(snaps):
            sid = "%s/snap%d" % (owner, i)
            if sn.get("omit"):
                continue
            dec = icontract.snapshot(
                self._fn("s_" + _san(sid), params, sn.get("style", "sync"), sid, "snap"), name=sn.get("name") or ("s_" + _san(sid)), **self._enabled_kw(sn)
            )
            fn = dec(fn)
            self.contracts[sid] = dec._snapshot
        for i, c in enumerate(spec.get("pre", ())):
            sid = "%s/pre%d" % (owner, i)
            if c.get("omit"):
                continue
            dec = icontract.require(
                self._fn("c_" + _san(sid), params, c.get("style", "sync"), sid, "pre", callform=c.get("callform")),
                description="[[%s]]" % sid,
                **self._enabled_kw(c),
                **self._error_kw(sid, c.get("error"), False)
            )
            fn = dec(fn)
            self.contracts[sid] = dec._contract
        return fn

    # -- functions ----------------------------------------------------------------------------
    def _build_func(self, fs):
        run = self.run
        name = fs["name"]
        if fs.get("kwargs"):
            if fs.get("async"):

                async def raw(t, **kwargs):
                    return await run.abody()

            else:

                def raw(t, **kwargs):
                    return run.body()

        elif fs.get("returns_coro"):
            # a plain ``def`` that hands back a coroutine for the caller to await (a sync facade delegating to async code)
            def raw(t):
                return run.abody()

        elif fs.get("async") and fs.get("offload"):
            # an ``async def`` layer (functools.wraps) around a plain function - what an "off-load to an executor" decorator produces;
            # the contracts are stacked on the async layer
            def inner(t):
                return run.body()

            inner.__name__ = name
            inner.__qualname__ = fs.get("qualname", name)
            run.idmap[id(inner)] = name
            raw = _async_layer(inner)
        elif fs.get("async"):

            async def raw(t):
                return await run.abody()

        else:

            def raw(t):
                return run.body()

        raw.__name__ = name
        raw.__qualname__ = fs.get("qualname", name)  # (functions produced by one factory share a qualified name)
        run.idmap[id(raw)] = name
        return self._decorate(raw, name, fs)

    # -- classes ------------------------------------------------------------------------------
    def _build_member(self, cname, ms):
        run = self.run
        kind = ms.get("kind", "method")
        name = ms["name"]
        owner = "%s.%s" % (cname, name)
        if kind == "alias":
            k, m = ms["of"].split(".")
            if ms.get("via") == "attr":
                v = getattr(self.classes[k], m)  # what ``name = Base.member`` evaluates to in the class body
                if isinstance(self.classes[k].__dict__.get(m), staticmethod) or ms.get("static"):
                    # a static method re-exported by attribute access is the bare function; keep it static
                    return staticmethod(v)
                if ms.get("wrapped"):
                    # ``name = some_decorator(Base.member)``: the member of another class behind a functools.wraps decorator
                    return _foreign_wraps(v)
                return v
            return self.classes[k].__dict__[m]
        if kind == "shared":
            # one plain (undecorated) function used as the implementation of a member in several classes
            pool = self.__dict__.setdefault("shared_impls", {})
            raw = pool.get(ms["impl"])
            if raw is None:

                def raw(self, t):
                    return run.body(self)

                raw.__name__ = "impl%s" % ms["impl"]
                raw.__qualname__ = "impl%s" % ms["impl"]
                run.idmap[id(raw)] = "impl%s" % ms["impl"]
                if ms.get("contracted"):
                    # ... which carries contracts of its own (decorated once, at module level)
                    raw = self._decorate(raw, "impl%s" % ms["impl"], {"pre": [{}], "post": [{}]}, params=("self", "t"))
                pool[ms["impl"]] = raw
            return raw
        if kind == "cprop":
            # functools.cached_property: computed by the first access and stored in the instance's __dict__
            import functools as _functools

            def craw(self):
                return run.body(self)

            craw.__name__ = name
            craw.__qualname__ = "%s.%s" % (getattr(self, "_cur_pyname", None) or cname, name)
            run.idmap[id(craw)] = owner
            cp = _functools.cached_property(craw)
            return cp
        if kind == "prop_ext":
            # a subclass extending a property of its base with a setter of its own: @Base.prop.setter
            import inspect as _inspect

            bp = None
            for bname in ms["bases"]:
                cand = _inspect.getattr_static(self.classes[bname], name, None)
                if isinstance(cand, property):
                    bp = cand
                    break
            if bp is None:
                raise HarnessError("prop_ext without a base property")

            def fset2(self, value):
                run.body(self)

            fset2.__name__ = name
            fset2.__qualname__ = "%s.%s" % (getattr(self, "_cur_pyname", None) or cname, name)
            run.idmap[id(fset2)] = owner + ".set"
            return bp.setter(self._decorate(fset2, owner + ".set", ms.get("setter") or {}, params=("self", "value")))
        if kind == "prop":

            def fget(self):
                return run.body(self)

            fget.__name__ = name
            fget.__qualname__ = "%s.%s" % (getattr(self, "_cur_pyname", None) or cname, name)
            run.idmap[id(fget)] = owner
            g = self._decorate(fget, owner, ms, params=("self",))
            fset = None
            if ms.get("setter") is not None:

                def fset(self, value):
                    run.body(self)

                fset.__name__ = name
                fset.__qualname__ = "%s.%s" % (getattr(self, "_cur_pyname", None) or cname, name)
                run.idmap[id(fset)] = owner + ".set"
                fset = self._decorate(fset, owner + ".set", ms["setter"], params=("self", "value"))
            return property(g, fset)
        if kind == "method":
            if ms.get("async") and ms.get("offload"):

                def inner(self, t):
                    return run.body(self)

                inner.__name__ = name
                inner.__qualname__ = "%s.%s" % (getattr(self, "_cur_pyname", None) or cname, name)
                run.idmap[id(inner)] = owner
                raw = _async_layer(inner)
            elif ms.get("async"):

                async def raw(self, t):
                    return await run.abody(self)

            else:

                def raw(self, t):
                    return run.body(self)

        elif kind == "static":

            def raw(t):
                return run.body()

        elif kind == "class":

            def raw(cls, t):
                return run.body()

        else:
            raise HarnessError("unknown member kind %r" % kind)
        raw.__name__ = name
        # the qualified name is what Python would give it: <name of the class statement>.<member>
        raw.__qualname__ = "%s.%s" % (getattr(self, "_cur_pyname", None) or cname, name)
        run.idmap[id(raw)] = owner
        fn = self._decorate(raw, owner, ms)
        if ms.get("wraps"):
            fn = _foreign_wraps(fn)
        if kind == "static":
            return staticmethod(fn)
        if kind == "class":
            return classmethod(fn)
        return fn

    def _build_init(self, cname, ispec, base_cls):
        run = self.run
        sup = ispec.get("super", "first")
        owner = "%s.__init__" % cname

        def raw(self, t):
            if sup == "first" and base_cls is not None:
                base_cls.__init__(self, t)
            run.body(self, is_ctor=True)
            if sup == "last" and base_cls is not None:
                base_cls.__init__(self, t)

        raw.__name__ = "__init__"
        raw.__qualname__ = owner
        run.idmap[id(raw)] = owner
        return self._decorate(raw, owner, ispec)

    def _builtin_root(self, cname):
        seen = set()
        while cname and cname not in seen:
            seen.add(cname)
            cs = self.cspec.get(cname)
            if cs is None:
                return False
            if cs.get("builtin"):
                return True
            cname = cs.get("base")
        return False

    def _spec_has_init(self, cname):
        seen = set()
        todo = [cname]
        while todo:
            c = todo.pop()
            if c in seen or c not in self.cspec:
                continue
            seen.add(c)
            cs = self.cspec[c]
            if cs.get("init") is not None:
                return True
            if cs.get("base"):
                todo.append(cs["base"])
            todo.extend(cs.get("bases2", ()))
        return False

    def _build_class(self, cs):
        run = self.run
        cname = cs["name"]
        base_name = cs.get("base")
        bases = []
        base_cls = None
        if base_name:
            base_cls = self.classes[base_name]
            bases.append(base_cls)
        for b2 in cs.get("bases2", ()):
            bases.append(self.classes[b2])
        if cs.get("builtin") == "list" and not bases:
            bases.append(list)  # a contract class deriving from a built-in with its own (slot-wrapper) __init__
        if bases and not cs.get("dbc", True):
            raise HarnessError("plain (non-DBC) classes are generated as roots only")
        meta_only = bool(cs.get("meta_only")) and not [b for b in bases if b is not list]  # ``class K(metaclass=icontract.DBCMeta)`` without the DBC base
        if (cs.get("dbc", True) or bases) and not meta_only and not any(isinstance(b, icontract.DBCMeta) for b in bases):
            bases.append(icontract.DBC)
        pyname = cs.get("pyname", cname)  # several generated classes may deliberately share one Python name
        ns = {"__qualname__": pyname, "__module__": "verif_world"}
        self._cur_pyname = pyname
        if cs.get("intern"):
            # a class of interned ("flyweight") objects: no __init__, and __new__ hands out the existing instance of a label
            def __new__(cls_, t):
                a = run.actor()
                tx = a.tstack[-1]
                label = tx.td.get("obj")
                ex = run.world.objects.get(label)
                if ex is not None and type(ex) is cls_:
                    run.ev("interned", None, tx.xid, label)
                    return ex
                o = object.__new__(cls_)
                run.body(o, is_ctor=True)
                return o

            ns["__new__"] = __new__
        elif cs.get("init") is not None:
            init_base = base_cls if (base_cls is not None and self._spec_has_init(base_name)) else None
            ns["__init__"] = self._build_init(cname, cs["init"], init_base)
        for ms in cs.get("methods", ()):
            ns[ms["name"]] = self._build_member(cname, ms)

        def __repr__(self):
            e = self.__dict__.get("_repr_armed") if hasattr(self, "__dict__") else None
            if e is not None:
                object.__setattr__(self, "_repr_armed", None)
                run.ev("repr", None, None, getattr(self, "_label", "?"))
                run.fired(e)
                raise e
            return "O<%s>" % getattr(self, "_label", "?")

        ns["__repr__"] = __repr__
        if cs.get("ga"):
            # a proxy-like class whose attribute look-up can fail (lazy loader, remote object): an armed instance raises at the
            # n-th look-up of ``__class__`` made while one of its calls is running (one shot)
            def __getattribute__(self, name):
                if name == "__class__":
                    arm = run.ga_armed.get(id(self))
                    if arm is not None:
                        a = _ACTOR.get()
                        tx = a.tstack[-1] if (a is not None and a.run is run and a.tstack) else None
                        if tx is not None:
                            if arm["n"] <= 0:
                                del run.ga_armed[id(self)]
                                e = run.make_fault(tx, "getattr", "raise:" + arm["exc"])
                                e.verif_kind = "getattr:" + arm["exc"]
                                run.ev("getattr_fault", None, tx.xid, None)
                                run.fired(e)
                                raise e
                            arm["n"] -= 1
                return object.__getattribute__(self, name)

            ns["__getattribute__"] = __getattribute__

        def _poke(self, flags):
            self._flags.update(flags)

        ns["_poke"] = _poke
        if meta_only:
            cls = icontract.DBCMeta(pyname, tuple(bases), ns)
        else:
            cls = type(bases[0])(pyname, tuple(bases), ns) if bases else type(pyname, (), ns)
        # invariants: decorator nearest the class first
        for i, inv in enumerate(cs.get("invs", ())):
            sid = "%s/inv%d" % (cname, i)

            # the condition must take exactly ``self``
            def mk(_sid, _content=inv.get("content")):
                if _content == "le2":

                    def c(self):
                        return run.hit(_sid, "inv", self) and list.__len__(self) <= 2

                else:

                    def c(self):
                        return run.hit(_sid, "inv", self)

                c.__name__ = "i_" + _san(_sid)
                return c

            if inv.get("omit"):
                continue
            dec = icontract.invariant(
                mk(sid),
                description="[[%s]]" % sid,
                check_on=_CHECK_ON[inv.get("check_on", "CALL")],
                **self._enabled_kw(inv),
                **self._error_kw(sid, inv.get("error"), True)
            )
            cls = dec(cls)
            self.contracts[sid] = dec._invariant
        return cls

    # -- resolution of a ticket to an operation ---------------------------------------------------
    def is_async(self, td):
        fn = td["fn"]
        if fn in self.fspec:
            return bool(self.fspec[fn].get("async"))
        if td.get("op") in ("new",):
            return False
        cname = td.get("cls")
        if cname is None:
            obj = self.objects.get(td.get("obj"))
            if obj is None:
                return False
            cls = type(obj)
        else:
            cls = self.classes[cname]
        m = getattr(cls, fn, None)
        import inspect

        return inspect.iscoroutinefunction(m)

    def defining_unit(self, cls, member):
        """The unit of the function object reached by ``cls.member``: the generated raw function at the bottom of the
        decorator stack decides (an inherited member that the library re-binds or re-wraps on a subclass is still the
        same raw function, hence the same checker and the same suspension mark)."""
        for k in cls.__mro__:
            if member in k.__dict__:
                v = k.__dict__[member]
                if isinstance(v, (staticmethod, classmethod)):
                    v = v.__func__
                if isinstance(v, property):
                    v = v.fget
                elif hasattr(v, "func") and hasattr(v, "attrname"):
                    v = v.func  # functools.cached_property
                n = 0
                while hasattr(v, "__wrapped__") and n < 20:
                    v = v.__wrapped__
                    n += 1
                lab = self.run.idmap.get(id(v))
                if lab is not None:
                    return lab
                return "%s.%s" % (k.__name__, member)
        return "%s.%s" % (cls.__name__, member)

    def _info(self, f, cls, kind):
        """What the real library has attached to the callable (used only to know whether contracts exist)."""
        ck = _ck.find_checker(f) if f is not None else None
        pre = getattr(ck, "__preconditions__", None) if ck is not None else None
        post = getattr(ck, "__postconditions__", None) if ck is not None else None
        info = {"kind": kind, "has_pre": bool(pre) and any(pre), "has_post": bool(post)}
        if cls is not None:
            info["has_call_inv"] = bool(getattr(cls, "__invariants_on_call__", None))
            info["has_inv"] = bool(getattr(cls, "__invariants__", None))
        return info

    def resolve(self, tx):
        td = tx.td
        fn = td["fn"]
        t = tx.t
        op = td.get("op", "call")
        if fn in self.funcs and op == "call" and td.get("obj") is None and td.get("cls") is None:
            f = self.funcs[fn]
            tx.info = self._info(f, None, "func")
            kw = td.get("kw")
            if kw:
                return (lambda: f(t, **kw)), fn, None
            return (lambda: f(t)), fn, None
        if op == "new":
            cls = self.classes[td["cls"]]
            tx.info = self._info(cls.__dict__.get("__init__"), cls, "ctor")
            if self._builtin_root(td["cls"]):
                label = td.get("obj")
                run = self.run

                def mk():
                    o = cls(list(range(td.get("content", 1))))
                    if run.label_of(o) is None:
                        run.register(o, label, td.get("flags"))
                    return o

                return mk, "%s.__init__" % td["cls"], label
            return (lambda: cls(t)), self.defining_unit(cls, "__init__"), td.get("obj")
        if td.get("cls") is not None and td.get("obj") is None:
            cls = self.classes[td["cls"]]
            raw = None
            for k in cls.__mro__:
                if fn in k.__dict__:
                    raw = k.__dict__[fn]
                    break
            tx.info = self._info(getattr(raw, "__func__", raw), None, "static" if isinstance(raw, staticmethod) else "class")
            return (lambda: getattr(cls, fn)(t)), self.defining_unit(cls, fn), None
        obj = self.objects.get(td["obj"])
        if obj is None:
            raise HarnessError("unknown object %r" % td["obj"])
        cls = type(obj)
        if op == "reinit":
            # the constructor is run again on a live object (obj.__init__(...)): the object stays registered, its state is kept
            tx.info = self._info(cls.__dict__.get("__init__"), cls, "ctor")
            return (lambda: obj.__init__(t)), self.defining_unit(cls, "__init__"), td["obj"]
        if op == "call":
            raw = None
            for k in cls.__mro__:
                if fn in k.__dict__:
                    raw = k.__dict__[fn]
                    break
            if isinstance(raw, (staticmethod, classmethod)):
                tx.info = self._info(raw.__func__, None, "static" if isinstance(raw, staticmethod) else "class")
                return (lambda: getattr(obj, fn)(t)), self.defining_unit(cls, fn), None
            tx.info = self._info(raw, cls, "method")
            return (lambda: getattr(obj, fn)(t)), self.defining_unit(cls, fn), td["obj"]
        if op in ("get", "set"):
            raw = None
            for k in cls.__mro__:
                if fn in k.__dict__:
                    raw = k.__dict__[fn]
                    break
            if not isinstance(raw, property):
                # functools.cached_property
                tx.info = self._info(getattr(raw, "func", None), cls, "prop")
                return (lambda: getattr(obj, fn)), self.defining_unit(cls, fn), td["obj"]
            acc = raw.fget if op == "get" else raw.fset
            tx.info = self._info(acc, cls, "prop")
            unit = self.defining_unit(cls, fn) + (".set" if op == "set" else "")
            if op == "get":
                return (lambda: getattr(obj, fn)), unit, td["obj"]
            return (lambda: setattr(obj, fn, t)), unit, td["obj"]
        raise HarnessError("unknown op %r" % op)


class _Awaitable:
    """An awaitable that is not a coroutine object."""

    __slots__ = ("_c",)

    def __init__(self, c):
        self._c = c

    def __await__(self):
        return self._c.__await__()


def _async_layer(f):
    """An ``async def`` wrapper (functools.wraps) around a plain function."""
    import functools

    @functools.wraps(f)
    async def layer(*a, **k):
        return f(*a, **k)

    return layer


def _foreign_wraps(f):
    """A third-party style decorator (functools.wraps) stacked above the contract decorators."""
    import functools
    import inspect

    if inspect.iscoroutinefunction(f):

        @functools.wraps(f)
        async def w(*a, **k):
            return await f(*a, **k)

    else:

        @functools.wraps(f)
        def w(*a, **k):
            return f(*a, **k)

    return w


def _has_py_init(cls):
    for k in cls.__mro__:
        if k is object:
            return False
        if "__init__" in k.__dict__:
            return True
    return False


def see_old_default(self, OLD):
    """Postconditions with OLD touch every captured name (reading a missing one is an error)."""
    return None


Run.see_old = see_old_default
