"""Generation and evaluation of definition histories (shared by C17 and C18)."""
import core
import defmachine
import gen
from props import common

MEMBER_POOL = [("m0", "method"), ("m1", "method"), ("s0", "static"), ("c0", "class"), ("p0", "prop"), ("a0", "amethod")]


def _cspec(r, forms):
    c = {}
    if forms:
        e = r.choice(gen.ERROR_FORMS)
        if e != "default":
            c["error"] = e
        if r.random() < 0.15:
            c["callform"] = r.choice(["partial", "object"])
    return c


def generate(r, tier, prop):
    n = r.randint(4, 9 if tier == "quick" else 13)
    forms = r.random() < 0.3
    # swarm knobs of this history
    inv_mix = r.choice([["CALL", "CALL", "CALL", "ALL"], ["SETATTR", "SETATTR", "CALL"], ["CALL", "SETATTR", "ALL"], ["SETATTR", "SETATTR", "SETATTR", "CALL", "ALL"]])
    inv_counts = r.choice([[0, 0, 1, 1, 2], [1, 1, 2], [0, 1]])
    p_base = r.choice([0.5, 0.75, 0.95])
    p_second_base = r.choice([0.1, 0.2, 0.5])
    p_alias = r.choice([0.1, 0.15, 0.4])
    p_diamond = r.choice([0.0, 0.0, 0.35])
    steps = []
    classes = {}  # name -> {"bases": [...], "has": {member: kind}, "eff_pre": {member: bool}, "snapnames": {member: [names]}, "root_members": set}
    funcs = []
    nk = 0
    nf = 0

    def mro(c):
        seen = []

        def go(x):
            if x in seen:
                return
            seen.append(x)
            for b in classes[x]["bases"]:
                go(b)

        go(c)
        return seen

    def has_member(c, m):
        return any(m in classes[x]["own"] for x in mro(c))

    def eff_pre(c, m):
        # effective precondition groups non-empty?
        if m in classes[c]["own"]:
            own = classes[c]["own"][m]["pre"]
            base_has = [b for b in classes[c]["bases"] if has_member(b, m)]
            base_pre = any(eff_pre(b, m) for b in base_has)
            return bool(own) or base_pre
        for b in classes[c]["bases"]:
            if has_member(b, m):
                return eff_pre(b, m)
        return False

    def related(a, b):
        return a in mro(b) or b in mro(a)

    builtin_roots = set()

    def any_builtin(bs):
        return any(x in builtin_roots for b in bs for x in mro(b))

    for i in range(n):
        x = r.random()
        if x < 0.12 or (x < 0.3 and not classes):
            name = "f%d" % nf
            nf += 1
            spec = gen.gen_unit_spec(r, name, False, forms=forms)
            steps.append({"op": "func", "spec": spec})
            funcs.append(spec)
            continue
        if x < 0.80 or not classes:
            name = "K%d" % nk
            nk += 1
            bases = []
            diamond = None
            if len(classes) >= 3 and r.random() < p_diamond:
                # two siblings as bases (a diamond over their common parent)
                sibs = {}
                for c in sorted(classes):
                    for b in classes[c]["bases"][:1]:
                        sibs.setdefault(b, []).append(c)
                cands = [(b, cs) for b, cs in sorted(sibs.items()) if len(cs) >= 2]
                if cands:
                    top, cs = r.choice(cands)
                    bases = r.sample(cs, 2)
                    diamond = top
            if not bases and classes and r.random() < p_base:
                bases.append(r.choice(sorted(classes)))
                if len(classes) > 1 and r.random() < p_second_base:
                    b2 = r.choice(sorted(classes))
                    if not related(b2, bases[0]):
                        bases.append(b2)
            spec = {"name": name, "methods": [], "invs": []}
            if bases:
                spec["base"] = bases[0]
                if len(bases) > 1:
                    spec["bases2"] = bases[1:]
            if not bases and r.random() < 0.15:
                spec["dbc"] = False  # a plain class (contracts by decorators only); only classes on the contract base derive from it
            if not bases and spec.get("dbc", True) and r.random() < 0.3:
                spec["meta_only"] = True  # metaclass=DBCMeta used directly, DBC not inherited
            if not bases and spec.get("dbc", True) and r.random() < 0.15:
                spec["builtin"] = "list"  # derives from a built-in with its own slot-wrapper __init__ and defines no constructor
            info = {"bases": bases, "own": {}, "dbc": bool(spec.get("dbc", True))}
            classes[name] = info
            if (not bases and not spec.get("builtin")) or (bases and not any_builtin(bases) and r.random() < 0.4):
                spec["init"] = {"super": r.choice(["first", "last"]) if bases else "first"}
                if r.random() < 0.3:
                    spec["init"]["pre"] = [_cspec(r, forms)]
                if r.random() < 0.2:
                    spec["init"]["post"] = [_cspec(r, forms)]
            pool = list(MEMBER_POOL)
            r.shuffle(pool)
            if diamond is not None:
                # override a member of the common ancestor (preferably one with snapshots) in the most derived class
                anc = [(m, classes[diamond]["own"][m]["kind"]) for m in sorted(classes[diamond]["own"]) if classes[diamond]["own"][m]["kind"] not in ("alias", "shared", "prop_ext", "cprop")]
                anc.sort(key=lambda x: not classes[diamond]["own"][x[0]]["snaps"])
                if anc:
                    pool = [anc[0]] + [p for p in pool if p[0] != anc[0][0]]
            for m, kind in pool[: r.randint(1, 3)]:
                ms = {"name": m, "kind": kind}
                if kind == "amethod":
                    ms = {"name": m, "kind": "method", "async": True}
                    kind = "method"
                base_has = [b for b in bases if has_member(b, m)]
                can_pre = (not base_has) or any(eff_pre(b, m) for b in base_has)
                ms["pre"] = [_cspec(r, forms) for _ in range(r.randint(0, 2))] if can_pre else []
                ms["post"] = [_cspec(r, forms) for _ in range(r.randint(0, 2))]
                if ms["post"] and r.random() < 0.4:
                    ms["snaps"] = [{"name": "s_%s_%s_%d" % (name, m, k)} for k in range(r.randint(1, 2))]
                if kind == "prop" and r.random() < 0.5:
                    # a setter with contracts of its own (an overriding setter only strengthens: postconditions)
                    ms["setter"] = {"pre": [] if base_has else [_cspec(r, forms) for _ in range(r.randint(0, 1))], "post": [_cspec(r, forms) for _ in range(r.randint(0, 2))]}
                if kind in ("method", "static", "class") and (ms["pre"] or ms["post"]) and r.random() < 0.2:
                    ms["wraps"] = True  # a foreign functools.wraps decorator above the contract decorators
                info["own"][m] = {"pre": ms["pre"], "kind": kind, "snaps": [s["name"] for s in ms.get("snaps", [])], "post": ms["post"]}
                spec["methods"].append(ms)
            if r.random() < 0.12 and "cp0" not in info["own"] and not spec.get("builtin"):
                spec["methods"].append({"name": "cp0", "kind": "cprop"})  # functools.cached_property (no contracts of its own)
                info["own"]["cp0"] = {"pre": [], "kind": "cprop", "snaps": [], "post": []}
            if bases and r.random() < 0.2:
                # a property of a base extended with a setter of its own (@Base.p0.setter); the getter stays the base's
                pc = sorted(m for b in bases for x in mro(b) for m in classes[x]["own"] if classes[x]["own"][m]["kind"] == "prop" and m not in info["own"])
                if pc:
                    m = pc[0]
                    spec["methods"].append({"name": m, "kind": "prop_ext", "bases": list(bases), "setter": {"pre": [], "post": [_cspec(r, forms) for _ in range(r.randint(0, 1))]}})
                    info["own"][m] = {"pre": [], "kind": "prop_ext", "snaps": [], "post": []}
            if bases and r.random() < 0.15:
                # the member is implemented by a plain function that other classes use as well (``put = _put_impl``)
                cands = sorted(m for b in bases for m in classes[b]["own"] if classes[b]["own"][m]["kind"] == "method" and m not in info["own"])
                if cands:
                    m = r.choice(cands)
                    sh_ = {"name": m, "kind": "shared", "impl": r.randint(0, 1)}
                    if r.random() < 0.4:
                        sh_["impl"] = 2 + r.randint(0, 1)
                        sh_["contracted"] = True  # the shared implementation carries contracts of its own
                    spec["methods"].append(sh_)
                    info["own"][m] = {"pre": [], "kind": "shared", "snaps": [], "post": []}
            if bases and r.random() < p_alias:
                # re-export of a base's function object in the subclass namespace
                b = bases[0]
                cands = [m for m in classes[b]["own"] if classes[b]["own"][m]["kind"] in ("method", "prop", "static") and m not in info["own"]]
                # ... or of a more distant ancestor, whose member a class in between has overridden (``f = Root.f`` below Mid.f)
                far = [(x, m) for x in mro(b)[1:] for m in sorted(classes[x]["own"]) if classes[x]["own"][m]["kind"] in ("method", "static") and m not in info["own"]
                       and not classes[x]["own"][m]["snaps"] and any(m in classes[y]["own"] for y in mro(b)[: mro(b).index(x)])]
                if far and r.random() < 0.5:
                    x, m = r.choice(far)
                    al = {"name": m, "kind": "alias", "of": "%s.%s" % (x, m)}
                    if classes[x]["own"][m]["kind"] == "static" or r.random() < 0.5:
                        al["via"] = "attr"
                    spec["methods"].append(al)
                    if r.random() < 0.4:
                        spec["pyname"] = x
                elif cands:
                    m = r.choice(cands)
                    if not classes[b]["own"][m]["snaps"]:
                        al = {"name": m, "kind": "alias", "of": "%s.%s" % (b, m)}
                        if classes[b]["own"][m]["kind"] == "static" or r.random() < 0.5:
                            al["via"] = "attr"  # written as ``m = Base.m`` in the class body
                        if classes[b]["own"][m]["kind"] == "method" and r.random() < 0.3:
                            al["via"] = "attr"
                            al["wrapped"] = True  # ``m = some_decorator(Base.m)`` with a functools.wraps decorator
                        spec["methods"].append(al)
                        if r.random() < 0.4:
                            # ... in a class which carries the very name of the base it re-exports from (class K(K): ...)
                            spec["pyname"] = b
            if r.random() < 0.12:
                # a method borrowed from a class that is NOT among the ancestors (``g = Other.g``)
                anc_ = set(x for b in bases for x in mro(b))
                far2 = [(x, m) for x in sorted(classes) if x not in anc_ and x != name and not any(classes[y].get("has_inv") for y in mro(x)) for m in sorted(classes[x]["own"])
                        if classes[x]["own"][m]["kind"] == "method" and not classes[x]["own"][m]["snaps"] and m not in info["own"] and not any(y["name"] == m for y in spec["methods"])]
                if far2:
                    x, m = r.choice(far2)
                    al = {"name": m, "kind": "alias", "of": "%s.%s" % (x, m)}
                    if r.random() < 0.5:
                        al["via"] = "attr"
                    spec["methods"].append(al)
                    info["own"][m] = {"pre": [], "kind": "alias", "snaps": [], "post": []}
            if bases and r.random() < 0.15:
                # re-export of a base's method under the name of ANOTHER member that the bases also provide
                b = bases[0]
                meths = sorted(m for m in classes[b]["own"] if classes[b]["own"][m]["kind"] == "method" and not classes[b]["own"][m]["snaps"])
                if len(meths) >= 2:
                    src, dst = r.sample(meths, 2)
                    if dst not in info["own"] and not any(x["name"] == dst for x in spec["methods"]):
                        spec["methods"].append({"name": dst, "kind": "alias", "of": "%s.%s" % (b, src)})
            if spec.get("builtin"):
                builtin_roots.add(name)
            n_inv_ = r.choice(inv_counts)
            info["has_inv"] = n_inv_ > 0
            for k in range(n_inv_):
                inv = {"check_on": r.choice(inv_mix)}
                inv.update(_cspec(r, forms))
                if spec.get("builtin") and r.random() < 0.6:
                    inv["content"] = "le2"  # the invariant also looks at the content of the (list) object
                spec["invs"].append(inv)
            if classes and len(classes) > 1 and "pyname" not in spec and r.random() < 0.12:
                # a second, distinct class object with the Python name of an earlier one (class factory, re-executed class statement)
                spec["pyname"] = r.choice(sorted(c for c in classes if c != name))
            steps.append({"op": "class", "spec": spec})
            continue
        if x < 0.92:
            kind = r.choice(["weaken", "dupsnap", "snap_no_post"])
            if kind == "weaken":
                cands = [(c, m) for c in sorted(classes) for m in sorted(set(mm for y in mro(c) for mm in classes[y]["own"])) if not eff_pre(c, m)]
                if cands:
                    c, m = r.choice(cands)
                    mk = [classes[y]["own"][m]["kind"] for y in mro(c) if m in classes[y]["own"]][0]
                    if mk in ("shared", "alias"):
                        mk = "method"
                    if mk == "prop_ext":
                        mk = "prop"
                    if mk == "cprop":
                        continue
                    spec = {"name": "B%d" % i, "base": c, "methods": [{"name": m, "kind": mk, "pre": [{}], "post": []}], "invs": []}
                    if r.random() < 0.5:
                        spec["invs"].append({"check_on": r.choice(["CALL", "SETATTR", "ALL"])})
                    if r.random() < 0.5:
                        # the rejected class also borrows a member of a contract class outside its ancestors (placed first in its body)
                        anc_ = set(mro(c))
                        lend = [(x, mm) for x in sorted(classes) if x not in anc_ and classes[x].get("dbc", True) and not any(classes[y].get("has_inv") for y in mro(x))
                                for mm in sorted(classes[x]["own"]) if classes[x]["own"][mm]["kind"] == "method" and not classes[x]["own"][mm]["snaps"] and mm != m]
                        if lend:
                            x, mm = r.choice(lend)
                            spec["methods"].insert(0, {"name": mm, "kind": "alias", "of": "%s.%s" % (x, mm)})
                            follow = [cb for cb in sorted(classes) if cb not in mro(x) and x not in mro(cb) and classes[cb].get("dbc", True) and has_member(cb, mm)
                                      and not any(classes[y]["own"].get(mm, {}).get("snaps") for y in mro(cb))]
                            if follow and r.random() < 0.7:
                                # ... and a corrected class that borrows the same member is defined right afterwards
                                steps.append({"op": "bad", "kind": kind, "spec": spec, "expect": "TypeError"})
                                name2 = "K%d" % nk
                                nk += 1
                                cb = r.choice(follow)
                                spec2 = {"name": name2, "base": cb, "methods": [{"name": mm, "kind": "alias", "of": "%s.%s" % (x, mm)}], "invs": []}
                                classes[name2] = {"bases": [cb], "own": {mm: {"pre": [], "kind": "alias", "snaps": [], "post": []}}, "dbc": True}
                                steps.append({"op": "class", "spec": spec2})
                                continue
                    steps.append({"op": "bad", "kind": kind, "spec": spec, "expect": "TypeError"})
                    continue
                kind = "snap_no_post"
            if kind == "dupsnap":
                cands = [(c, m) for c in sorted(classes) for m in sorted(classes[c]["own"]) if classes[c]["own"][m]["snaps"]]
                if cands:
                    c, m = r.choice(cands)
                    mk = classes[c]["own"][m]["kind"]
                    spec = {"name": "B%d" % i, "base": c, "methods": [{"name": m, "kind": mk, "pre": [], "post": [{}], "snaps": [{"name": classes[c]["own"][m]["snaps"][0]}]}], "invs": []}
                    steps.append({"op": "bad", "kind": kind, "spec": spec, "expect": "ValueError"})
                    continue
                kind = "snap_no_post"
            spec = {"name": "g%d" % i, "pre": [], "post": [], "snaps": [{}], "force_snaps": True}
            steps.append({"op": "bad", "kind": "snap_no_post", "spec": spec, "expect": "ValueError"})
            continue
        if funcs and r.random() < 0.12:
            # contracts put on functools.partial(f, ...) of an already contracted function: a new callable, f stays as it is
            fc_ = [f_["name"] for f_ in funcs if f_["pre"] or f_["post"]]
            if fc_:
                steps.append({"op": "partial", "unit": r.choice(fc_), "role": r.choice(["pre", "post"])})
                continue
        if classes and r.random() < 0.1:
            # a class re-created from its own namespace (dataclass(slots=True) style); the copy is then decorated further
            # (classes without the metaclass share their lists by reference by design: only contract classes are re-created)
            srcs_ = sorted(c for c in classes if classes[c].get("dbc", True))
            if srcs_:
                src_ = r.choice(srcs_)
                cl_ = "C%d" % i
                steps.append({"op": "clone", "of": src_, "name": cl_})
                if r.random() < 0.8:
                    steps.append({"op": "late_inv", "unit": cl_, "check_on": r.choice(inv_mix)})
                continue
        if classes and r.random() < 0.25:
            # the invariant decorator applied to a class that already exists - possibly after subclasses of it were created
            c_ = r.choice(sorted(classes))
            steps.append({"op": "late_inv", "unit": c_, "check_on": r.choice(inv_mix)})
            classes[c_]["has_inv"] = True
            desc_ = sorted(d_ for d_ in classes if d_ != c_ and c_ in mro(d_))
            if desc_ and r.random() < 0.5:
                # ... and then one of its subclasses, which was created before the base got its invariant
                d_ = r.choice(desc_)
                steps.append({"op": "late_inv", "unit": d_, "check_on": r.choice(inv_mix)})
                classes[d_]["has_inv"] = True
            continue
        # decorating a member of an already created class (K.m = require(...)(K.m)) or appending through the documented helper
        if classes and r.random() < 0.4:
            late = []
            for c in sorted(classes):
                for m, mi in sorted(classes[c]["own"].items()):
                    if mi["kind"] in ("method", "prop"):
                        late.append((c, m))
            if late:
                c, m = r.choice(late)
                role = r.choice(["pre", "post"])
                # a precondition can only be added where it does not weaken illegally: own or inherited preconditions exist, or nobody above has the member
                base_has = [b for b in classes[c]["bases"] if has_member(b, m)]
                if role == "post" or not base_has or eff_pre(c, m):
                    steps.append({"op": "late", "unit": "%s.%s" % (c, m), "role": role})
                    if role == "pre":
                        classes[c]["own"][m]["pre"] = list(classes[c]["own"][m]["pre"]) + [{}]
                    continue
        cands = []
        for f in funcs:
            if f["pre"] or f["post"]:
                cands.append((f["name"], "pre" if r.random() < 0.5 else "post"))
        for c in sorted(classes):
            for m, mi in sorted(classes[c]["own"].items()):
                if mi["kind"] != "method":
                    continue
                base_has = [b for b in classes[c]["bases"] if has_member(b, m)]
                if base_has:
                    continue
                if mi["pre"] or mi["post"]:
                    cands.append(("%s.%s" % (c, m), "pre" if (r.random() < 0.5) else "post"))
        if cands:
            unit, role = r.choice(cands)
            steps.append({"op": "append", "unit": unit, "role": role})
            if role == "pre" and "." in unit:
                c, mname = unit.split(".")
                classes[c]["own"][mname]["pre"] = list(classes[c]["own"][mname]["pre"]) + [{}]
    scn = {"property": prop, "steps": steps}
    lazy = [s["spec"]["name"] for s in steps if s["op"] == "class" and r.random() < 0.3]
    if lazy:
        scn["lazy"] = lazy  # classes that are not exercised when defined: their first use comes after later definitions
    return scn


def icontract_meta():
    import icontract

    return icontract.DBCMeta


def _relation(m, new, old):
    w = m.world
    if new is None:
        return "no-new-definition"
    if old in w.funcs:
        return "function"
    if new in w.funcs:
        return "new-function"
    nc, oc = w.classes[new], w.classes[old]
    if oc in nc.__mro__:
        return "base-of-new" if oc in nc.__bases__ else "ancestor-of-new"
    common_ = [k for k in nc.__mro__ if k in oc.__mro__ and k.__name__ in w.classes]
    return "sibling-or-cousin" if common_ else "unrelated"


def _vv_differs(stored, now):
    """Compare a stored verdict vector with a current one under the new-site rule."""
    diffs = []
    for k, v in now.items():
        if k in stored:
            if stored[k] != v:
                diffs.append((k, stored[k], v))
        else:
            head = k.split(":", 1)[0]
            ok_key = "%s:ok" % head
            exp = stored.get(ok_key)
            if exp is not None and exp != v:
                diffs.append((k, exp, v))
    for k in stored:
        if k not in now:
            diffs.append((k, stored[k], None))
    return diffs


def _flat(x):
    out = set()
    if isinstance(x, (list, tuple)):
        for e in x:
            out |= _flat(e) if isinstance(e, (list, tuple)) else {e}
    return out


def _set_diff(a, b):
    """First list (by name) whose *set* of entries differs between two fingerprints: (name, gained, lost) or None."""
    for k in sorted(set(a) | set(b)):
        va, vb = a.get(k), b.get(k)
        if va == vb:
            continue
        if isinstance(va, dict) or isinstance(vb, dict):
            for role in ("pre", "snaps", "post"):
                sa = _flat((va or {}).get(role) or [])
                sb = _flat((vb or {}).get(role) or [])
                if sa != sb:
                    return ("%s.%s" % (k, role), sorted(sb - sa), sorted(sa - sb))
        else:
            sa, sb = _flat(va or []), _flat(vb or [])
            if sa != sb:
                return (k, sorted(sb - sa), sorted(sa - sb))
    return None


def _declared(m, cname, member, touched, accessor="get"):
    """(pre, snaps, post) site-id sets that the class declarations imply for ``cname.member`` (own contracts plus, for an
    override, those of every direct base providing the member; a class that does not define the member takes the first
    provider in its MRO).  None where the history leaves the plain case (re-exports, shared implementations, members
    decorated after class creation)."""
    w = m.world
    cs = w.cspec.get(cname)
    if cs is None:
        return None
    own = [x for x in cs.get("methods", ()) if x["name"] == member]
    if member == "__init__":
        i = cs.get("init")
        if i is None:
            return None
        post = {"%s.__init__/post%d" % (cname, k) for k in range(len(i.get("post", ())))}
        return ({"%s.__init__/pre%d" % (cname, k) for k in range(len(i.get("pre", ())))}, set(), post)
    if "%s.%s" % (cname, member) in touched:
        return None
    bases = ([cs["base"]] if cs.get("base") else []) + list(cs.get("bases2", ()))
    if own and accessor == "set":
        o = own[0]
        if o.get("kind") != "prop":
            return None  # (also: prop_ext - the chain of accessors is not the plain case)
        st = o.get("setter")
        unit = "%s.%s.set" % (cname, member)
        pre, post = set(), set()
        if st is not None:
            pre = {"%s/pre%d" % (unit, k) for k in range(len(st.get("pre", ())))}
            post = {"%s/post%d" % (unit, k) for k in range(len(st.get("post", ())))}
        for b in bases:
            if _provides(m, b, member):
                e = _declared(m, b, member, touched, "set")
                if e is None:
                    return None
                pre |= e[0]
                post |= e[2]
        if st is None:
            return None  # the class defines the property without a setter of its own: the accessor is not re-created here
        return (pre, set(), post)
    if own:
        o = own[0]
        if o.get("kind", "method") in ("alias", "shared", "prop_ext"):
            return None
        unit = "%s.%s" % (cname, member)
        pre = {"%s/pre%d" % (unit, k) for k in range(len(o.get("pre", ())))}
        post = {"%s/post%d" % (unit, k) for k in range(len(o.get("post", ())))}
        snaps = {"%s/snap%d" % (unit, k) for k in range(len(o.get("snaps", ())))} if o.get("post") else set()
        for b in bases:
            if _provides(m, b, member):
                e = _declared(m, b, member, touched)
                if e is None:
                    return None
                pre |= e[0]
                snaps |= e[1]
                post |= e[2]
        return (pre, snaps, post)
    for k in w.classes[cname].__mro__[1:]:
        nm = _world_name(m, k)
        if nm is not None and any(x["name"] == member for x in w.cspec[nm].get("methods", ())):
            return _declared(m, nm, member, touched, accessor)
    return None


def _shadowed_by_rewrap(m, cname, member):
    """Does Python's look-up of ``member`` through the bases of ``cname`` end at a copy which the library put into the ``__dict__`` of
    a class that does not declare the member itself (a class with invariants inheriting the member from an ancestor whose members
    carried no invariant checks on calls)?  In the library's design that copy is the only way to get that class's invariants around the
    inherited member, and it shadows the overrides of classes later in the MRO (finding D15).  Returns the name of that class."""
    w = m.world
    cs = w.cspec[cname]
    bases = ([cs["base"]] if cs.get("base") else []) + list(cs.get("bases2", ()))
    for b in bases:
        for k in w.classes[b].__mro__:
            if member not in k.__dict__:
                continue
            nm = _world_name(m, k)
            if nm is None or any(x["name"] == member for x in w.cspec[nm].get("methods", ())):
                break
            for p in k.__mro__[1:]:
                pn = _world_name(m, p)
                if pn is not None and any(x["name"] == member for x in w.cspec[pn].get("methods", ())):
                    if not getattr(p, "__invariants_on_call__", None):
                        return nm
                    break
            break
    return None


def _d19_related(m, old, lenders):
    """Is ``old`` one of the classes finding D19 is about: a lender, a descendant of one, a class sharing the lent function, or a class
    using a contracted module-level implementation that some class adopted in place?"""
    w = m.world
    if old not in w.classes:
        return False
    seen = []
    todo = [old]
    while todo:
        x = todo.pop()
        if x in seen or x not in w.classes:
            continue
        seen.append(x)
        if x in lenders:
            return True
        for ms in w.cspec.get(x, {}).get("methods", ()):
            if ms.get("kind") == "shared" and ms.get("contracted"):
                return True
            if ms.get("kind") == "alias":
                todo.append(ms["of"].split(".")[0])
        todo.extend(_ancestors(m, x))
        co = w.cspec.get(x, {}).get("clone_of")
        if co:
            todo.append(co)
    return False


def _ancestors(m, name):
    if name not in m.world.classes:
        return []
    return [n for n in (_world_name(m, k) for k in m.world.classes[name].__mro__[1:]) if n is not None]


def _world_name(m, cls):
    for nm, c in m.world.classes.items():
        if c is cls:
            return nm
    return None


def _provides(m, cname, member):
    for k in m.world.classes[cname].__mro__:
        nm = _world_name(m, k)
        if nm is not None and any(x["name"] == member for x in m.world.cspec[nm].get("methods", ())):
            return True
    return False


def _foreign_effect(m, old, vv):
    """Probes in which a contract of a class that is neither ``old`` nor one of its ancestors decides old's verdict."""
    w = m.world
    if old not in w.classes:
        return []
    mro = list(w.classes[old].__mro__)
    # a member borrowed from a class outside the hierarchy (``g = Other.g``) legitimately brings that class's contracts along
    todo = list(mro)
    while todo:
        k = todo.pop()
        nm = _world_name(m, k)
        if nm is None:
            continue
        for ms in w.cspec[nm].get("methods", ()):
            if ms.get("kind") == "alias":
                src = w.classes.get(ms["of"].split(".")[0])
                if src is not None:
                    for x in src.__mro__:
                        if x not in mro:
                            mro.append(x)
                            todo.append(x)
    bad = []
    for k, v in sorted(vv.items()):
        head, sid = k.split(":", 1)
        if sid == "ok":
            continue
        owner = sid.split("/")[0].split(".")[0]
        if owner in w.classes and w.classes[owner] not in mro:
            exp = vv.get(head + ":ok")
            if exp is not None and v != exp:
                bad.append((k, exp, v, owner))
    return bad


def _manual_mismatch(manual):
    bad = []
    for unit, sites, mv, real in manual:
        if mv[0] == "fault":
            ok = real[0] == "fault" and real[1:] == mv[1:]
        elif mv[0] == "ret":
            ok = real[0] == "ret"
        else:
            ok = real[0] == "exc" and real[2] == mv[1]
        if not ok:
            bad.append((unit, sites, mv, real))
    return bad


def execute(scn, want):
    """Run a history. ``want`` in ("C17", "C18")."""
    violations = []
    shapes = set()
    stats = {"steps": 0, "probes": {}}

    def probe(k):
        stats["probes"][k] = stats["probes"].get(k, 0) + 1

    with defmachine.Machine() as m:
        defined = []  # names in definition order
        ok_classes = 0
        touched = set()  # members changed after their class was created (late decoration, helper appends)
        borrowed_plain = set()  # classes without the metaclass a member of which a contract class has borrowed (finding D19)
        inv_stale = set()  # classes an ancestor of which was given an invariant after they had been created
        D19 = ":borrowed-member-whose-checker-the-metaclass-never-processed"
        for si, step in enumerate(scn.get("steps") or []):
            stats["steps"] += 1
            name, exc, announced = m.define(step)
            op = step["op"]
            if op in ("late", "append"):
                touched.add(step["unit"])
            if op == "late_inv":
                probe("invariant_added_to_existing_class")
                if exc is None and step["unit"] in m.world.classes:
                    rc_ = m.world.classes[step["unit"]]
                    for d_ in defined:
                        if d_ != step["unit"] and d_ in m.world.classes and rc_ in m.world.classes[d_].__mro__:
                            # decorating a class after its subclasses were created is not how invariants are declared: which of
                            # the subclasses' members are wrapped is not defined, so the by-hand comparison leaves them alone
                            inv_stale.add(d_)
            # ---------------- expectations about the step itself
            if op == "bad":
                probe("failing_definition_" + step.get("kind", "?"))
                if exc is None:
                    # a definition that we expected to be rejected was accepted: not what C17/C18 state; it is C19's
                    # business. Keep the class out of the observed set and go on.
                    probe("failing_definition_was_accepted")
                    if name is not None:
                        if name in m.world.classes:
                            defined.append(name)
                            m.stored_fp[name] = m.fingerprint(name)
                            m.stored_vv[name] = m.verdict_vector(name)
                elif type(exc).__name__ != step.get("expect"):
                    probe("failing_definition_other_error")
            elif exc is not None:
                # a definition we believed valid was rejected: the history generator's model of validity is off;
                # not a violation of these properties
                probe("valid_definition_rejected_" + type(exc).__name__)
                name = None
            # ---------------- C18.R1: registration hook
            if want == "C18" and op == "clone":
                if exc is None:
                    nc_ = m.world.classes.get(step["name"])
                    if isinstance(nc_, icontract_meta()):
                        ok_classes += 1
                    if isinstance(nc_, icontract_meta()) and (len(announced) != 1 or announced[0] is not nc_):
                        violations.append({"rule": "C18.R1", "classifier": "re-created-class-announced-%d-times" % len(announced), "detail": {"step": si, "class": step["name"]}})
                    if not isinstance(nc_, icontract_meta()) and announced:
                        violations.append({"rule": "C18.R1", "classifier": "plain-class-announced", "detail": {"step": si, "class": step["name"]}})
            elif want == "C18":
                if op in ("class", "bad") and exc is None and name is not None and name in m.world.classes and not isinstance(m.world.classes[name], icontract_meta()):
                    # a plain class (not created through the inheriting metaclass) is not announced
                    if announced:
                        violations.append({"rule": "C18.R1", "classifier": "plain-class-announced", "detail": {"step": si, "class": name}})
                elif op in ("class", "bad") and exc is None and name is not None and name in m.world.classes:
                    ok_classes += 1
                    cls = m.world.classes[name]
                    if len(announced) != 1 or announced[0] is not cls:
                        violations.append(
                            {
                                "rule": "C18.R1",
                                "classifier": "class-announced-%d-times%s%s"
                                % (len(announced), "" if not announced or announced[0] is cls else "-wrong-object", ":python-name-shared-with-earlier-class" if step["spec"].get("pyname") else ""),
                                "detail": {"step": si, "class": name, "announced": [getattr(a, "__name__", str(a)) for a in announced]},
                            }
                        )
                elif announced:
                    violations.append(
                        {
                            "rule": "C18.R1",
                            "classifier": "announcement-during-%s%s" % (op, "-failed" if exc is not None else ""),
                            "detail": {"step": si, "announced": [getattr(a, "__name__", str(a)) for a in announced]},
                        }
                    )
            # ---------------- finding D19: a member borrowed from a class WITHOUT the metaclass by a contract class
            d19_cls = name if (op == "class" and exc is None and name is not None and name in m.world.classes) else None
            d19_spec = step.get("spec") or {}
            if op == "clone" and exc is None and step["name"] in m.world.classes:
                # the re-created class goes through the metaclass with the members of the original, re-exports included
                d19_cls = step["name"]
                d19_spec = m.world.cspec.get(step["of"]) or {}
            if op == "bad" and d19_cls is None and isinstance(step.get("spec"), dict) and step["spec"].get("methods") is not None:
                # a rejected definition has gone through the metaclass as well (the namespace is processed before the error is raised)
                bases_ = [b_ for b_ in ([step["spec"].get("base")] + list(step["spec"].get("bases2", ()))) if b_ in m.world.classes]
                anc_classes = set(k_ for b_ in bases_ for k_ in m.world.classes[b_].__mro__)
                for ms_ in step["spec"].get("methods", ()):
                    if ms_.get("kind") == "alias":
                        src_ = m.world.classes.get(ms_["of"].split(".")[0])
                        if src_ is not None and (not isinstance(src_, icontract_meta()) or ms_["of"] in touched) and (src_ not in anc_classes or ms_.get("wrapped")):
                            borrowed_plain.add(ms_["of"].split(".")[0])
            if d19_cls is not None:
                name_ = name
                name = d19_cls
                for ms_ in d19_spec.get("methods", ()):
                    if ms_.get("kind") == "alias":
                        src_ = m.world.classes.get(ms_["of"].split(".")[0])
                        never_seen = src_ is not None and (not isinstance(src_, icontract_meta()) or ms_["of"] in touched)
                        if never_seen and (src_ not in m.world.classes[name].__mro__ or ms_.get("wrapped") or op == "clone"):
                            # the lender is a class without the metaclass, or the member got its checker only after the lender's creation
                            borrowed_plain.add(ms_["of"].split(".")[0])
                name = name_
            # ---------------- observe earlier definitions
            changed = []
            rebase = []
            allowed = set()
            if op in ("append", "late", "late_inv") and exc is None:
                unit = step["unit"]
                root = unit.split(".")[0]
                allowed.add(root)
                if root in m.world.classes:
                    rc = m.world.classes[root]
                    for d in defined:
                        if d in m.world.classes and rc in m.world.classes[d].__mro__:
                            allowed.add(d)
                    # classes that borrowed a member from one of these (``g = Other.g``) share the very function object
                    grew = True
                    while grew:
                        grew = False
                        for d in defined:
                            if d in allowed or d not in m.world.classes:
                                continue
                            for k_ in m.world.classes[d].__mro__:
                                nm_ = _world_name(m, k_)
                                if nm_ is None:
                                    continue
                                if nm_ in allowed or any(x.get("kind") == "alias" and x["of"].split(".")[0] in allowed for x in m.world.cspec[nm_].get("methods", ())):
                                    allowed.add(d)
                                    grew = True
                                    break
            for old in defined:
                fp = m.fingerprint(old)
                if fp != m.stored_fp[old]:
                    changed.append(old)
                    sd = _set_diff(m.stored_fp[old], fp)
                    if sd and old not in allowed and want == "C17":
                        which, gained, lost = sd
                        violations.append(
                            {
                                "rule": "C17.R2" if op == "bad" else "C17.R1",
                                "classifier": "%s:%s:lists:%s:%s%s"
                                % (op, _relation(m, name, old), which if which.startswith("__inv") else which.split(".")[-1], "gained" if gained else "lost", D19 if _d19_related(m, old, borrowed_plain) else ""),
                                "detail": {"step": si, "defined": name, "observed": old, "list": which, "gained": gained, "lost": lost},
                            }
                        )
                    rebase.append(old)
            to_probe = list(changed)
            if name is not None and name in m.world.classes:
                for b in m.world.classes[name].__bases__:
                    if b.__name__ in m.stored_fp and b.__name__ not in to_probe:
                        to_probe.append(b.__name__)
            if defined:
                rot = defined[si % len(defined)]
                if rot not in to_probe:
                    to_probe.append(rot)
            is_last = si == len(scn["steps"]) - 1
            if is_last:
                to_probe = list(defined)
            for old in to_probe:
                manual = [] if (want == "C18" and old not in inv_stale and not any(x in inv_stale for x in _ancestors(m, old))) else None
                vv = m.verdict_vector(old, manual)
                rel = _relation(m, name, old)
                if want == "C17":
                    fe = _foreign_effect(m, old, vv)
                    if fe:
                        k, exp, now, owner = fe[0]
                        violations.append(
                            {
                                "rule": "C17.R1",
                                "classifier": "foreign-contract-decides-verdict:%s:%s%s" % (_relation(m, owner, old), "inv" if "/inv" in k else "contract", D19 if _d19_related(m, old, borrowed_plain) else ""),
                                "detail": {"step": si, "observed": old, "probe": k, "verdict_with_all_true": exp, "verdict_now": now, "contract_of": owner},
                            }
                        )
                if m.stored_vv[old] is None:
                    m.stored_vv[old] = vv  # first use of a lazily observed class
                diffs = _vv_differs(m.stored_vv[old], vv)
                if old in allowed:
                    # the documented helper changed this unit on purpose: re-baseline
                    m.stored_vv[old] = vv
                    m.stored_fp[old] = m.fingerprint(old)
                    diffs = []
                if diffs and want == "C17":
                    k, was, now = diffs[0]
                    what = k.split(":")[0]
                    site = k.split(":", 1)[1]
                    rule = "C17.R2" if (op == "bad") else "C17.R1"
                    violations.append(
                        {
                            "rule": rule,
                            "classifier": "%s:%s:%s:%s%s"
                            % (op, rel, "ctor" if what == "new" else "member", "inv" if "/inv" in site else ("pre" if "/pre" in site else ("post" if "/post" in site else "ok")), D19 if _d19_related(m, old, borrowed_plain) else ""),
                            "detail": {"step": si, "defined": name, "observed": old, "probe": k, "verdict_when_defined": was, "verdict_now": now, "lists_changed": old in changed},
                        }
                    )
                if old in changed and not diffs and old not in allowed:
                    probe("lists_changed_but_verdicts_equal")
                if diffs or old in rebase:
                    # attribute a deviation to the step that caused it only
                    m.stored_vv[old] = vv
                    m.stored_fp[old] = m.fingerprint(old)
                if manual:
                    bad = _manual_mismatch(manual)
                    if bad:
                        unit, sites, mv, real = bad[0]
                        violations.append(
                            {
                                "rule": "C18.R2",
                                "classifier": "manual-%s-vs-real-%s:%s" % (mv[0], real[0], "inv" if (len(mv) > 1 and "/inv" in str(mv[1])) or (real[0] == "exc" and real[2] and "/inv" in real[2]) else "contract"),
                                "detail": {"step": si, "unit": unit, "falsified": sites, "by_hand": mv, "real_call": real},
                            }
                        )
                shapes.add(common.h64((want, op, rel, bool(diffs), old in changed)))
            # ---------------- C18.R4: the lists of a freshly created class are what its declaration implies
            if want == "C18" and name is not None and exc is None and op == "class":
                fp_new = m.fingerprint(name)
                for ms in step["spec"].get("methods", ()):
                    kind_ = ms.get("kind", "method")
                    if kind_ in ("alias", "shared", "prop_ext", "cprop"):
                        continue
                    exp = _declared(m, name, ms["name"], touched)
                    if exp is None:
                        continue
                    got = fp_new.get(ms["name"] + (".get" if kind_ == "prop" else ""))
                    gp = _flat((got or {}).get("pre") or [])
                    gs = _flat((got or {}).get("snaps") or [])
                    gq = _flat((got or {}).get("post") or [])
                    checks = [("pre", exp[0], gp), ("snaps", exp[1], gs), ("post", exp[2], gq)]
                    if kind_ == "prop" and ms.get("setter") is not None:
                        es = _declared(m, name, ms["name"], touched, "set")
                        gset = fp_new.get(ms["name"] + ".set")
                        if es is not None:
                            checks += [("set-pre", es[0], _flat((gset or {}).get("pre") or [])), ("set-post", es[2], _flat((gset or {}).get("post") or []))]
                    for role, e_, g_ in checks:
                        if e_ != g_:
                            sh = _shadowed_by_rewrap(m, name, ms["name"])
                            d19_ = "" if sh else (D19 if _d19_related(m, name, borrowed_plain) else "")
                            violations.append(
                                {
                                    "rule": "C18.R4",
                                    "classifier": "lists-differ-from-declaration:%s:%s:%s%s"
                                    % (kind_, role, "missing" if e_ - g_ else "extra", ":inherited-member-copied-into-invariant-class-shadows-later-override" if sh else d19_),
                                    "detail": {"step": si, "class": name, "member": ms["name"], "role": role, "declared": sorted(e_), "introspected": sorted(g_), "copy_held_by": sh},
                                }
                            )
                            break
            # ---------------- record the new definition
            if name is not None and exc is None and op in ("class", "func"):
                if op == "class" and any(x in inv_stale for x in _ancestors(m, name)):
                    inv_stale.add(name)  # its lists were merged from lists that had missed the late invariant of an ancestor
                manual = [] if (want == "C18" and name not in inv_stale) else None
                m.stored_fp[name] = m.fingerprint(name)
                if name in (scn.get("lazy") or ()) and op == "class":
                    m.stored_vv[name] = None
                else:
                    m.stored_vv[name] = m.verdict_vector(name, manual)
                defined.append(name)
                if manual:
                    bad = _manual_mismatch(manual)
                    if bad:
                        unit, sites, mv, real = bad[0]
                        violations.append(
                            {
                                "rule": "C18.R2",
                                "classifier": "manual-%s-vs-real-%s:%s" % (mv[0], real[0], "inv" if (len(mv) > 1 and "/inv" in str(mv[1])) or (real[0] == "exc" and real[2] and "/inv" in real[2]) else "contract"),
                                "detail": {"step": si, "unit": unit, "falsified": sites, "by_hand": mv, "real_call": real},
                            }
                        )
                    shapes.add(common.h64((want, "manual", len(manual) > 4, any(x[2][0] == "viol" for x in manual))))
            # ---------------- C18.R3: a contract appended through the documented helper is live
            if want == "C18" and op in ("append", "late") and exc is None:
                unit = step["unit"]
                cands_ = sorted(s for s in m.world.contracts if s.startswith("%s/%s" % (unit, step["role"])) and int(s.rsplit(step["role"], 1)[1]) >= 10)
                if not cands_:
                    continue  # the step was skipped (see Machine._late)
                sid = cands_[-1]
                m.n_probe += 1
                if "." in unit:
                    cname, mem = unit.split(".")
                    label, v0 = m._new_obj(cname)
                    td = {"id": "q%d" % m.n_probe, "fn": mem, "obj": label, "sites": {sid: {"truth": False}}}
                    usable = v0[0] == "ret"
                else:
                    td = {"id": "q%d" % m.n_probe, "fn": unit, "sites": {sid: {"truth": False}}}
                    usable = True
                if usable:
                    v = m._call(td)
                    probe("appended_contract_probed")
                    # the appended contract must be able to fail the call unless an earlier contract fails first
                    if v[0] == "ret":
                        violations.append({"rule": "C18.R3", "classifier": "appended-%s-not-live" % step["role"], "detail": {"step": si, "unit": unit, "site": sid, "verdict": v}})
        if want == "C18":
            if len(m.announced) != ok_classes:
                violations.append({"rule": "C18.R1", "classifier": "total-announcements-%s" % ("more" if len(m.announced) > ok_classes else "fewer"), "detail": {"announced": len(m.announced), "classes": ok_classes}})
        # "states" of a definition history: the shape of the class hierarchy after each step (names abstracted to positions)
        sigs = []
        order = {}
        acc = []
        for st_ in scn.get("steps") or []:
            sp = st_.get("spec") or {}
            if st_["op"] in ("class", "bad") and "name" in sp and "methods" in sp:
                order[sp["name"]] = len(order)
                bs = ([sp["base"]] if sp.get("base") else []) + list(sp.get("bases2", ()))
                acc.append(
                    (
                        tuple(order.get(b, -1) for b in bs),
                        tuple(sorted((x.get("kind", "method"), bool(x.get("pre")), bool(x.get("post")), bool(x.get("snaps")), bool(x.get("setter"))) for x in sp.get("methods", ()))),
                        tuple(sorted(i.get("check_on", "CALL") for i in sp.get("invs", ()))),
                        sp.get("init") is not None,
                        bool(sp.get("dbc", True)),
                        bool(sp.get("meta_only")),
                        sp.get("builtin"),
                        "pyname" in sp,
                    )
                )
            else:
                acc.append((st_["op"], st_.get("kind"), st_.get("role")))
            sigs.append(common.h64(tuple(acc)))
        stats["state_sigs"] = sigs
        stats["probe_calls"] = m.probe_calls
        stats["manual_checks"] = m.manual_checks
        stats["events"] = len(m.run.log)
        digest = m.run.digest()
    seen = set()
    uniq = []
    for v in violations:
        if not v["rule"].startswith(want):
            continue
        c = (v["rule"], v["classifier"])
        if c not in seen:
            seen.add(c)
            uniq.append(v)
    return {"violations": uniq, "digest": digest, "nontrivial": shapes, "stats": stats}
