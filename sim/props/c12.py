"""C12 - concurrent callers never disable each other's checks.

Oracle C12.R1 (self-reference): the verdict of every call under the schedule equals the verdict the
same ticket gets when executed alone in a pristine context on an identically built world.
Engines: SimLoop (asyncio tasks) and ThreadSim (baton threads, optionally line-level pre-emption).
"""
import asyncio
import contextvars

import core
import gen
import simloop
import threadsim
from props import common

ID = "C12"
LEVEL = "exploration"
CTX_MODES = ["fresh", "copied_before", "copied_after", "copied_after"]
RULE_TEXT = (
    "seeded scenarios: generated world (1-3 contracted units, optional class with invariants and shared objects) x parent history "
    "(none / ran / violated / faulted) x 2-4 child actors (asyncio tasks on SimLoop or baton threads) each with a context mode "
    "(fresh, copied before / after the parent's first checked call) and a script of 1-3 tickets x pauses / baton hand-offs "
    "(thread scenarios: one actor may re-run the constructor of a shared object while the others call its methods); "
    "non-trivial = two different actors had top-level calls in flight at the same time on the same function or the same object "
    "and one of those calls has a contract violation as its sequential verdict; distinct = distinct event-log digests"
)


def generate(r, tier):
    engine = "loop" if r.random() < 0.6 else "threads"
    is_async = engine == "loop"
    profile = {
        "p_falsy": r.choice([0.4, 0.5, 0.7]),
        "pause_density": r.choice([0.3, 0.6, 0.9]),
        "p_nested": r.choice([0.0, 0.1, 0.25]),
        "p_self": 0.4,
        "max_depth": 2,
        "max_fanout": 2,
        "p_fault": r.choice([0.0, 0.0, 0.15]),
        "fault_kinds": r.sample(["raise", "bool", "cancel", "repr"], r.randint(1, 3)),
    }
    world = gen.gen_world(r, is_async, forms=r.random() < 0.5, subclass=0.3)
    units = gen.units_of(world)
    hist_mode = r.choice(["none", "ran", "ran", "violated", "faulted"])
    hot = r.choice(units)  # bias actors towards one shared unit so that calls overlap on it
    history = []
    if hist_mode != "none":
        for i in range(r.randint(1, 2)):
            history.append(gen.gen_ticket(r, "p.%d" % i, units, dict(profile, p_falsy=0.0, p_fault=0.0, p_nested=0.0)))
        if hist_mode == "violated":
            history.append(gen.gen_ticket(r, "p.v", units, dict(profile, p_falsy=1.0, p_fault=0.0, p_nested=0.0)))
        elif hist_mode == "faulted":
            meth = [u for u in units if u["obj"] is not None and u["async"]]
            if engine == "loop" and meth and r.random() < 0.5:
                # the parent's call on a shared object is cancelled inside the method body (e.g. by a timeout) and the parent survives
                u = hot if (hot["obj"] is not None and hot["async"]) else r.choice(meth)
                history.append({"id": "p.f", "fn": u["fn"], "obj": u["obj"], "body": {"pause": [1], "fault": {"kind": "cancel", "pos": r.choice(["pre", "post"])}}})
            else:
                history.append(gen.gen_ticket(r, "p.f", units, dict(profile, p_fault=1.0, p_nested=0.0)))
    if world.get("classes") and r.random() < 0.4:
        # the parent also constructs an object of its own before the children are created
        history.insert(r.randint(0, len(history)), {"id": "p.n", "fn": "__init__", "op": "new", "cls": r.choice(world["classes"])["name"], "obj": "pn0"})
    actors = []
    for i in range(r.randint(2, 4)):
        name = "a%d" % (i + 1)
        script = []
        for j in range(r.randint(1, 3)):
            u = hot if r.random() < 0.6 else None
            script.append(gen.gen_ticket(r, "%s.%d" % (name, j), units, profile, u=u))
        actors.append({"name": name, "ctx": r.choice(CTX_MODES), "script": script})
    scn = {"property": ID, "engine": engine, "profile": profile, "hist_mode": hist_mode, "world": world, "history": history, "actors": actors}
    if history and world.get("classes") and r.random() < 0.4:
        pk = {}
        for o in world.get("objects", ()):
            invs = [u["invs"] for u in units if u["obj"] == o["name"]]
            if invs and invs[0] and r.random() < 0.7:
                pk[o["name"]] = {r.choice(invs[0]): False}
        if pk:
            scn["poke_after_history"] = pk
    if r.random() < 0.4:
        scn["parent_script"] = [gen.gen_ticket(r, "p.c%d" % j, units, profile) for j in range(r.randint(1, 2))]
    ameths = [u for u in units if u["obj"] is not None and u["async"]]
    if engine == "loop" and ameths and r.random() < 0.08 and any(u["invs"] for u in ameths):
        # a coroutine created by a sync facade inside a method body (i.e. while the object's mark is set) is handed to another task,
        # which awaits it in its own context and afterwards uses the object
        u = r.choice([x for x in ameths if x["invs"]])
        world["funcs"].append({"name": "fr", "returns_coro": True, "pre": [], "post": [{}]})
        scn["history"] = list(scn.get("history") or []) + [{"id": "p.r", "fn": u["fn"], "obj": u["obj"], "body": {"nested": [{"id": "p.r.n", "fn": "fr"}]}}]
        if scn.get("hist_mode") == "none":
            scn["hist_mode"] = "ran"
        scn.setdefault("poke_after_history", {})[u["obj"]] = {r.choice(u["invs"]): False}
        b = actors[0]
        b["ctx"] = "fresh"
        carrier = r.choice(ameths)
        b["script"] = [{"id": "%s.w" % b["name"], "fn": carrier["fn"], "obj": carrier["obj"], "body": {"nested": [{"hook": "await_handed"}]}}] + [
            {"id": "%s.%d" % (b["name"], j + 5), "fn": u["fn"], "obj": u["obj"]} for j in range(r.randint(1, 2))
        ]
    if engine == "loop" and ameths and "body_host" not in scn and r.random() < 0.12:
        # ... or by the body of an async METHOD of a shared object (finding D21: the copy then holds the object's mark for good)
        u = hot if (hot["obj"] is not None and hot["async"]) else r.choice(ameths)
        host = gen.gen_ticket(r, "p.h", [u], dict(profile, p_falsy=0.0, p_fault=0.0, p_nested=0.0), u=u)
        host.setdefault("body", {}).setdefault("nested", []).append({"hook": "spawn_children"})
        scn["body_host"] = host
        for a in actors:
            a["ctx"] = "copied_in_body"  # (all of them: the body below changes the object's state, which must precede every child's calls)
        scn.pop("parent_script", None)
        if u["invs"] and r.random() < 0.8:
            # the method leaves the object in a state that violates one of its invariants (reported when the method returns);
            # the children start after that
            host["body"]["mutates"] = {r.choice(u["invs"]): False}
    afuncs = [u for u in units if u["obj"] is None and u["async"]]
    if engine == "loop" and afuncs and "body_host" not in scn and r.random() < 0.3:
        # some children are created by the BODY of a checked function of the parent (fire-and-forget / fan-out from a handler):
        # their contexts are copies taken while that call is in flight - the function's own contracts are not being evaluated then
        u = hot if (hot["obj"] is None and hot["async"]) else r.choice(afuncs)
        host = gen.gen_ticket(r, "p.h", [u], dict(profile, p_falsy=0.0, p_fault=0.0, p_nested=0.0), u=u)
        host.setdefault("body", {}).setdefault("nested", []).append({"hook": "spawn_children"})
        scn["body_host"] = host
        for a in actors:
            if r.random() < 0.6:
                a["ctx"] = "copied_in_body"
    if engine == "threads":
        scn["line_level"] = r.random() < 0.35
        n = 400 if scn["line_level"] else 80
        p = r.choice([0.03, 0.08]) if scn["line_level"] else r.choice([0.3, 0.5, 0.8])
        scn["choices"] = [(r.randint(1, 3) if r.random() < p else 0) for _ in range(n)]
    if engine == "threads" and world.get("objects") and r.random() < 0.25:
        # one actor re-runs the constructor of a shared object (obj.__init__(...)) while the others use the object: the constructor
        # is in flight (its body hands the baton over) when their calls arrive
        rr = r.__class__(r.getrandbits(32))  # (a PRNG of its own: the scenarios generated without this clause stay what they were)
        objs = [o for o in world["objects"] if not o.get("builtin")]
        hot_obj = hot["obj"] if hot["obj"] is not None else None
        o = next((x for x in objs if x["name"] == hot_obj), None) or (rr.choice(objs) if objs else None)
        if o is not None:
            a = rr.choice(actors)
            a["script"].insert(rr.randint(0, len(a["script"])), {"id": "%s.ri" % a["name"], "fn": "__init__", "op": "reinit", "obj": o["name"]})
            scn["reinit"] = o["name"]
    return scn


def all_tickets(scn):
    res = list(scn.get("history") or [])
    if scn.get("poke_after_history"):
        res.append({"poke": scn["poke_after_history"]})
    res += list(scn.get("parent_script") or [])
    if scn.get("body_host"):
        res.append(scn["body_host"])
    for a in scn.get("actors") or []:
        res += list(a.get("script") or [])
    return res


def _conc_loop(scn):
    run = core.Run(scn["world"])
    common.setup_objects(run, scn["world"])
    actors = scn.get("actors") or []

    async def do(td):
        if run.world.is_async(td):
            await run.acall(td)
        else:
            run.call(td)

    async def child(a):
        run.enter_actor(a["name"])
        for td in a.get("script") or []:
            await do(td)

    async def main():
        run.enter_actor("main")
        loop = asyncio.get_running_loop()
        before = {a["name"]: contextvars.copy_context() for a in actors if a.get("ctx") == "copied_before"}
        for td in scn.get("history") or []:
            await do(td)
            t_ = asyncio.current_task()
            while t_.cancelling():
                t_.uncancel()
        if scn.get("poke_after_history"):
            common.apply_poke(run, {"poke": scn["poke_after_history"]})
        tasks = []

        spawned = set()

        def spawn_children():
            for a in actors:
                if a.get("ctx") == "copied_in_body" and a["name"] not in spawned:
                    spawned.add(a["name"])
                    tasks.append(loop.create_task(child(a), name=a["name"], context=contextvars.copy_context()))

        run.hooks["spawn_children"] = spawn_children

        async def await_handed():
            while run.handed:
                await run.handed.pop(0)

        run.hooks["await_handed"] = await_handed
        for a in actors:
            mode = a.get("ctx", "fresh")
            if mode == "copied_in_body":
                continue
            if mode == "fresh":
                ctx = contextvars.Context()
            elif mode == "copied_before":
                ctx = before[a["name"]]
            else:
                ctx = contextvars.copy_context()
            tasks.append(loop.create_task(child(a), name=a["name"], context=ctx))
        for td in scn.get("parent_script") or []:
            await do(td)
        if scn.get("body_host"):
            await do(scn["body_host"])
            spawn_children()  # (the body was not reached, e.g. the call itself was rejected: the children start from here instead)
        await asyncio.gather(*tasks)

    _, vt = simloop.run_in_loop(main, contextvars.Context())
    for c_ in run.handed:
        c_.close()
    return run, {"vtime": vt}


def _conc_threads(scn):
    run = core.Run(scn["world"])
    common.setup_objects(run, scn["world"])
    actors = scn.get("actors") or []
    ctx_main = contextvars.Context()
    sim = threadsim.ThreadSim(run, scn.get("choices") or [], line_level=bool(scn.get("line_level")))
    run.yield_hook = sim.yield_point
    before = {a["name"]: ctx_main.run(contextvars.copy_context) for a in actors if a.get("ctx") == "copied_before"}

    def hist():
        run.enter_actor("main")
        for td in scn.get("history") or []:
            run.call(td)

    ctx_main.run(hist)
    if scn.get("poke_after_history"):
        common.apply_poke(run, {"poke": scn["poke_after_history"]})
    plan = []
    for a in actors:
        mode = a.get("ctx", "fresh")
        if mode == "fresh":
            ctx = contextvars.Context()
        elif mode == "copied_before":
            ctx = before[a["name"]]
        else:
            ctx = ctx_main.run(contextvars.copy_context)

        def fn(a=a):
            for td in a.get("script") or []:
                run.call(td)

        plan.append((a["name"], ctx, fn))
    if scn.get("parent_script"):

        def pfn():
            for td in scn["parent_script"]:
                run.call(td)

        plan.append(("main", ctx_main, pfn))
    sim.run_all(plan)
    return run, {"handoffs": sim.handoffs, "yields": sim.yields, "line_events": sim.line_events}


def execute(scn):
    """Run the scenario; returns a result dict (see run.py)."""
    tickets = all_tickets(scn)
    engine = scn.get("engine", "loop")
    try:
        if engine == "loop":
            seq = common.sequential_verdicts_loop(scn["world"], tickets)
        else:
            seq = common.sequential_verdicts_sync(scn["world"], tickets)
    except core.Abort:
        return {"violations": [], "skipped": "sequential phase hit a cap (C10's business)", "digest": None, "stats": {}}
    try:
        if engine == "loop":
            conc, st = _conc_loop(scn)
        else:
            conc, st = _conc_threads(scn)
    except core.Abort:
        return {
            "violations": [
                {"rule": "C12.R1", "classifier": "%s:abort-only-under-concurrency" % engine, "detail": "run hit a cap only in the concurrent phase"}
            ],
            "digest": None,
            "stats": {},
        }
    sv = common.verdict_map(seq)
    cv = common.verdict_map(conc)
    actor_ctx = {a["name"]: a.get("ctx", "fresh") for a in scn.get("actors") or []}
    violations = []
    for k in sorted(set(sv) | set(cv)):
        if k.startswith("setup."):
            continue
        a = sv.get(k)
        b = cv.get(k)
        if a != b:
            o = conc.outcomes.get(k) or seq.outcomes.get(k)
            who = o["actor"] if k in conc.outcomes else k.split("|")[0].split("#")[0].split(".")[0]  # (ticket ids start with the actor's name)
            ukind = "method" if o.get("obj") else "func"
            cls = "%s:%s:%s:%s:%s->%s" % (
                engine,
                actor_ctx.get(who, "parent"),
                scn.get("hist_mode", "?"),
                ukind,
                a[0] if a else "absent",
                b[0] if b else "absent",
            )
            bh = scn.get("body_host") or {}
            if actor_ctx.get(who) == "copied_in_body" and bh.get("obj"):
                # finding D21: the child's context was copied inside the body of a public method of a shared object and holds that
                # object's mark for good; its calls on the object go unchecked - and whatever those calls then do differs as well
                cls += ":context-copied-inside-a-method-body-of-the-same-object"
            violations.append({"rule": "C12.R1", "classifier": cls, "detail": {"call": k, "sequential": a, "concurrent": b, "actor": who}})
    # coverage measures
    iv = common.top_intervals(conc.log)
    nontrivial = False
    for i in range(len(iv)):
        for j in range(i + 1, len(iv)):
            x, y = iv[i], iv[j]
            if x[0] == y[0] or "setup" in (x[0], y[0]):
                continue
            if x[3] < y[4] and y[3] < x[4] and (x[1] == y[1] or (x[2] is not None and x[2] == y[2])):
                vx, vy = sv.get(x[5]), sv.get(y[5])
                if (vx and vx[0] == "exc" and vx[2]) or (vy and vy[0] == "exc" and vy[2]):
                    nontrivial = True
    stats = dict(st)
    stats["events"] = len(conc.log) + len(seq.log)
    stats["faults"] = dict(conc.faults_fired)
    stats["switch_sig"] = common.h64(common.switch_signature(conc.log))
    stats["calls"] = len(cv)
    stats["state_sigs"] = [common.h64(x) for x in conc.states]
    return {
        "violations": violations,
        "digest": conc.digest(),
        "nontrivial": common.h64(conc.log) if nontrivial else None,
        "stats": stats,
        "engine": engine,
    }

RUNS = {"quick": 24000, "thorough": 600000}
BUDGET_S = {"quick": 60, "thorough": 900}
CHUNK = 250
ASSUMPTIONS = [
    "object state is constant during the concurrent phase (bodies do not mutate invariant-relevant state), so every verdict is a function of its ticket",
    "only schedules a conforming asyncio loop can produce (FIFO ready queue, interleaving only through awaits); thread switches only at hand-overs or icontract source lines",
    "context mode 'copied while the parent is evaluating a condition' is not generated; 'copied inside the body of a checked function' is; 'copied inside the body of a method of the object called later' is generated and is the open finding D21",
]
