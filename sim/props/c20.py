"""C20 - violation messages are deterministic and bounded.

Workload: the committed fixture /verif/fixtures/lambda_contracts.py (45 contracted callables with lambda
conditions, default error) and one violating call for each.  Workers are fresh interpreters started with
different PYTHONHASHSEED values; each executes seeded *histories*: the violating calls are issued with a seeded
permutation of their keyword arguments at seeded positions of a history that also contains unrelated
violations, faulted calls (a condition that raises) and linecache.clearcache() (forces the source to be re-read),
on the main actor, on interleaved asyncio tasks (SimLoop) or on baton threads with line-level pre-emption inside
icontract (ThreadSim).

  C20.R1  a case has ONE message: across keyword orders, history positions, actors, processes and hash seeds
  C20.R2  the "<expr> was <value>" lines are sorted by expression text
  C20.R3  a line whose expression is a named (non-variadic) parameter or an extra keyword argument renders exactly
          a_repr.repr(value) for an a_repr configured independently by the harness (so the size limits apply)
  C20.R4  no line for parameters bound to classes, functions, methods, modules, builtins; no _ARGS/_KWARGS line
          unless the condition names them
"""
import asyncio
import contextvars
import copy
import inspect
import itertools
import json
import linecache
import os
import random
import re
import reprlib
import subprocess
import sys
import time
import uuid

HERE = os.path.dirname(os.path.dirname(os.path.abspath(__file__)))
VERIF = os.path.dirname(HERE)

ID = "C20"
LEVEL = "exploration"
RULE_TEXT = (
    "W fresh interpreters with distinct PYTHONHASHSEED x H seeded histories each; a history = 6-20 steps (violating fixture call with a seeded "
    "keyword-argument permutation, unrelated violation, faulted call, linecache.clearcache()) on the main actor / 2-3 SimLoop tasks / 2 baton "
    "threads with line-level pre-emption; every message is compared with the first message seen for its case (within the process, then across "
    "processes), parsed for sortedness, compared line by line with an independently configured reprlib.Repr, and searched for lines that must "
    "not exist. non-trivial/distinct = distinct (case, keyword order, engine) combinations whose message was compared in >= 2 hash seeds"
)
ASSUMPTIONS = [
    "fixture values have reprs independent of addresses and of the hash seed once rendered by reprlib (which sorts sets and dict keys)",
    "variadic parameters (*args/**kwargs names) are excluded from R3: their binding is C05's business",
]
WORKERS = {"quick": 8, "thorough": 64}
HISTORIES = {"quick": 40, "thorough": 150}
DEFAULT_REPR = {"maxdict": 50, "maxlist": 50, "maxtuple": 50, "maxset": 50, "maxfrozenset": 50, "maxdeque": 50, "maxarray": 50, "maxstring": 256, "maxother": 256}


def _mk_repr(cfg):
    r = reprlib.Repr()
    for k, v in cfg.items():
        setattr(r, k, v)
    return r


def _load_fixture():
    sys.path.insert(0, os.path.join(VERIF, "fixtures"))
    import lambda_contracts

    return lambda_contracts


def _call_case(L, case, order_seed):
    """Returns (callable-or-coroutine thunk result, kwargs actually used, bound target)."""
    kwargs = dict(case["kwargs"])
    if "fresh" in case:
        kwargs.update(copy.deepcopy(case["fresh"]))
    keys = list(kwargs.keys())
    random.Random(order_seed).shuffle(keys)
    kw = {k: kwargs[k] for k in keys}
    obj = None
    if "self" in case:
        cname, cargs = case["self"]
        obj = getattr(L, cname)(*copy.deepcopy(cargs))
        fn = getattr(obj, case["fn"].split(".")[1])
    elif "factory" in case:
        fn = getattr(L, case["factory"])()  # a contract defined on the spot; nothing else refers to it, it is dropped after the call
    else:
        fn = getattr(L, case["fn"])
    return fn, list(case["args"]), kw, obj


def check_message(L, case, kw, msg, selfobj=None):
    """R2-R4 on one message; returns list of (rule, classifier, detail)."""
    out = []
    lines = msg.split("\n")
    # R2: value lines sorted by expression text (multi-line form only)
    body = [l for l in lines[2:] if not l.startswith("  ")]
    keys = [l.split(" was ", 1)[0] for l in body if " was " in l]
    if keys != sorted(keys):
        out.append(("C20.R2", "lines-not-sorted", {"case": case["id"], "keys": keys}))
    # R3
    if "self" in case:
        target = getattr(getattr(L, case["self"][0]), case["fn"].split(".")[1])
    elif "factory" in case:
        target = getattr(L, case["factory"])()
    else:
        target = getattr(L, case["fn"])
    raw = target
    while hasattr(raw, "__wrapped__"):
        raw = raw.__wrapped__
    sig = inspect.signature(raw)
    a_repr = _mk_repr(case.get("a_repr") or DEFAULT_REPR)
    named = {}
    for name, p in sig.parameters.items():
        if p.kind in (p.VAR_POSITIONAL, p.VAR_KEYWORD) or name == "self":
            continue
        if name in kw:
            named[name] = kw[name]
        elif p.default is not inspect.Parameter.empty:
            named[name] = p.default
    pos = [n for n, p in sig.parameters.items() if p.kind in (p.POSITIONAL_ONLY, p.POSITIONAL_OR_KEYWORD) and n != "self"]
    for i, v in enumerate(case["args"]):
        if i < len(pos):
            named[pos[i]] = v
    for k, v in kw.items():
        named.setdefault(k, v)
    if selfobj is not None:
        named["self"] = selfobj  # rendered in its state at message time (the harness holds the same object)
    hidden = set(case.get("hidden") or ())
    for name, value in named.items():
        m = re.search(r"(?:^|\n|: )%s was (.*)$" % re.escape(name), msg, re.M)
        if name in hidden:
            if m:
                out.append(("C20.R4", "line-for-unrepresentable-value", {"case": case["id"], "param": name, "line": m.group(0)[:120]}))
            continue
        if not m:
            continue  # not every argument has to be listed (shadowed names etc.): completeness is C06's business
        want = a_repr.repr(value)
        if m.group(1) != want:
            out.append(("C20.R3", "rendering-differs-from-a_repr", {"case": case["id"], "param": name, "shown": m.group(1)[:160], "a_repr": want[:160], "len_shown": len(m.group(1)), "len_a_repr": len(want)}))
    for name, value in (case.get("all_vars") or {}).items():
        # the counter-example block of a failing all(...): "  <loop variable> = <value>"
        m = re.search(r"^  %s = (.*)$" % re.escape(name), msg, re.M)
        if not m:
            out.append(("C20.R3", "counter-example-line-missing", {"case": case["id"], "variable": name}))
            continue
        want = a_repr.repr(value)
        if m.group(1) != want:
            out.append(("C20.R3", "counter-example-rendering-differs-from-a_repr", {"case": case["id"], "variable": name, "shown": m.group(1)[:120], "a_repr": want[:120], "len_shown": len(m.group(1)), "len_a_repr": len(want)}))
    for expr in case.get("hidden_exprs") or ():
        # a name bound inside the condition (e.g. by :=) to a class, function, method, module or builtin has no line
        m = re.search(r"(?:^|\n|: )%s was (.*)$" % re.escape(expr), msg, re.M)
        if m:
            out.append(("C20.R4", "line-for-unrepresentable-value", {"case": case["id"], "expression": expr, "line": m.group(0)[:120]}))
    if case.get("cond_text") is not None:
        # a condition that is not a lambda is named, not rendered: neither its bound arguments nor its address belong in the message
        head = lines[1] if len(lines) > 1 else ""
        if not (head == case["cond_text"] + ":" or head.startswith(case["cond_text"] + ": ")):
            out.append(("C20.R3", "condition-text-of-named-condition", {"case": case["id"], "shown": head[:160], "len": len(head)}))
    for ph, flag in (("_ARGS", "names_args"), ("_KWARGS", "names_kwargs")):
        m = re.search(r"(?:^|\n|: )%s was " % ph, msg, re.M)
        if m and not case.get(flag):
            out.append(("C20.R4", "placeholder-line-not-named-by-condition", {"case": case["id"], "placeholder": ph}))
        if not m and case.get(flag):
            # "... unless the condition names them": then the placeholder is a value of the condition like any other
            out.append(("C20.R4", "placeholder-named-by-condition-but-hidden", {"case": case["id"], "placeholder": ph}))
    return out


# -------------------------------------------------------------------------------------------------
# histories
# -------------------------------------------------------------------------------------------------
RELOAD_VARIANTS = [
    ("x > 0", {"x": -5, "verbose": False}),
    ("x < LIMIT", {"x": 500, "verbose": False}),
    ("verbose == (x > 3)", {"x": 5, "verbose": False}),
    ("abs(x) < 2", {"x": -7, "verbose": True}),
    ("len(str(x)) > LIMIT", {"x": 12345, "verbose": True}),
]
RELOAD_TEMPLATE = "import icontract\n\nLIMIT = 10\n\n\n@icontract.require(lambda x, verbose: %s)\ndef g(x, verbose):\n    return x\n"
_RELOAD_N = [0]


def _reload_step(st, icontract):
    """Violate a contract, replace the module's source by one with a different lambda on the same line, reload, violate
    again: the second message must be the one a fresh load of the new source gives.  Returns (message after reload,
    reference message), paths normalised."""
    import importlib
    import importlib.util
    import shutil
    import tempfile

    d = tempfile.mkdtemp(prefix="verif-c20-reload-")
    try:
        _RELOAD_N[0] += 1
        name = "c20_reload_mod_%d" % _RELOAD_N[0]
        path = os.path.join(d, "c20_reload_mod.py")
        os.mkdir(os.path.join(d, "ref"))
        ref_path = os.path.join(d, "ref", "c20_reload_mod.py")

        def load(nm, p):
            spec = importlib.util.spec_from_file_location(nm, p)
            mod = importlib.util.module_from_spec(spec)
            sys.modules[nm] = mod
            spec.loader.exec_module(mod)
            return mod

        def violate(mod, kw, p):
            try:
                mod.g(**kw)
            except icontract.ViolationError as e:
                return str(e).replace(p, "<FILE>")
            return "NO-VIOLATION"

        va, vb = RELOAD_VARIANTS[st["a"]], RELOAD_VARIANTS[st["b"]]
        with open(path, "w") as f:
            f.write(RELOAD_TEMPLATE % va[0])
        sys.path.insert(0, d)
        importlib.invalidate_caches()
        sys.modules.pop("c20_reload_mod", None)
        mod = importlib.import_module("c20_reload_mod")
        violate(mod, va[1], path)
        with open(path, "w") as f:
            f.write(RELOAD_TEMPLATE % vb[0])
        os.utime(path, (2000000000 + _RELOAD_N[0], 2000000000 + _RELOAD_N[0]))
        importlib.invalidate_caches()
        importlib.reload(mod)
        after = violate(mod, vb[1], path)
        with open(ref_path, "w") as f:
            f.write(RELOAD_TEMPLATE % vb[0])
        ref = violate(load(name + "_ref", ref_path), vb[1], ref_path)
        return after, ref
    finally:
        sys.modules.pop("c20_reload_mod", None)
        sys.modules.pop(name + "_ref", None)
        if d in sys.path:
            sys.path.remove(d)
        shutil.rmtree(d, ignore_errors=True)


def gen_history(r, L):
    engine = r.choice(["sync", "sync", "loop", "threads"])
    steps = []
    cases = L.CASES
    for i in range(r.randint(6, 20)):
        x = r.random()
        if x < 0.7:
            c = r.choice(cases)
            if engine == "threads" and c.get("async"):
                continue
            steps.append({"k": "case", "case": c["id"], "order": r.randrange(10 ** 6), "pause": r.choice([0, 0, 1, 2])})
        elif x < 0.74:
            if engine != "sync":
                continue  # the step rebinds process-global import state; only on the single main actor
            a, b = r.sample(range(len(RELOAD_VARIANTS)), 2)
            steps.append({"k": "reload", "a": a, "b": b})
        elif x < 0.77:
            steps.append({"k": "closure", "limits": [r.randint(1, 50), r.randint(1, 50)], "x": r.randint(60, 99)})
        elif x < 0.8:
            steps.append({"k": "noise", "x": -r.randint(1, 100)})
        elif x < 0.805 and engine == "sync":
            # long strings that are created, reported once and dropped (so that later ones may land at the same address)
            steps.append({"k": "longstr", "n": r.randint(5, 30), "len": r.choice([300, 1000, 5000])})
        elif x < 0.815 and engine == "sync":
            # the limits of a Repr object are changed after the contracts using it were defined (start-up code adjusting
            # icontract.aRepr or a shared user Repr): the limits in force at the time of the violation apply
            steps.append({"k": "arepr", "target": r.choice(["shared", "default"]), "maxlist": r.randint(1, 30), "maxstring": r.randint(8, 120)})
        elif x < 0.84:
            # contracts defined on the spot, violated and dropped, in phases of one kind each, the garbage collected in between
            fc = [c["id"] for c in cases if "factory" in c]
            steps.append({"k": "factory", "phases": [[r.choice(fc), r.choice([1, 5, 40])] for _ in range(r.randint(2, 5))], "gc": r.random() < 0.8})
        elif x < 0.9:
            steps.append({"k": "fault"})
        else:
            steps.append({"k": "clearcache"})
    h = {"engine": engine, "steps": steps}
    if engine in ("loop", "threads"):
        h["actors"] = r.randint(2, 3) if engine == "loop" else 2
        h["assign"] = [r.randrange(h["actors"]) for _ in steps]
    if engine == "threads":
        h["choices"] = [(r.randint(1, 2) if r.random() < 0.02 else 0) for _ in range(3000)]
    return h


def run_history(L, h, by_id):
    """Execute one history; returns list of (case id, order, message or ('exc', type), kw used)."""
    import icontract

    sys.path.insert(0, HERE)
    import core
    import simloop
    import threadsim

    results = []

    def sync_step(st):
        k = st["k"]
        if k == "clearcache":
            linecache.clearcache()
            return
        if k == "closure":
            # the same condition object violates twice with its closure variable re-bound in between; the second message
            # must be the one a fresh twin (same source line) gives for the new binding
            fn, set_limit = L.make_limited()
            set_limit(st["limits"][0])
            msgs = []
            for lim in st["limits"]:
                set_limit(lim)
                try:
                    fn(x=st["x"])
                    msgs.append("NO-VIOLATION")
                except icontract.ViolationError as e:
                    msgs.append(str(e))
            twin, set2 = L.make_limited()
            set2(st["limits"][1])
            try:
                twin(x=st["x"])
                ref = "NO-VIOLATION"
            except icontract.ViolationError as e:
                ref = str(e)
            results.append(("__closure__", tuple(st["limits"]), (msgs[-1], ref), {}))
            return
        if k == "reload":
            after, ref = _reload_step(st, icontract)
            results.append(("__reload__", (st["a"], st["b"]), (after, ref), {}))
            return
        if k == "factory":
            import gc

            for cid, reps in st["phases"]:
                case = by_id[cid]
                for _ in range(reps):
                    fn, args, kw, _ = _call_case(L, case, 0)
                    try:
                        fn(*args, **kw)
                        results.append((cid, 0, ("no-violation", None), kw))
                    except icontract.ViolationError as e:
                        results.append((cid, 0, str(e), kw))
                    del fn
                if st.get("gc"):
                    gc.collect()  # the checkers refer to themselves: only the cyclic collector frees them
            return
        if k == "longstr":
            ind = reprlib.Repr()
            for a_, v_ in DEFAULT_REPR.items():
                setattr(ind, a_, v_)
            for j in range(st["n"]):
                s_ = chr(ord("a") + (j % 26)) * st["len"]
                try:
                    L.f03(s=s_)
                    msg = "NO-VIOLATION"
                except icontract.ViolationError as e:
                    msg = str(e)
                results.append(("__longstr__", (st["len"], j), (msg, ind.repr(s_)), {}))
                del s_
            return
        if k == "arepr":
            rp = L.SHARED_REPR if st["target"] == "shared" else icontract.aRepr
            fn = L.f67 if st["target"] == "shared" else L.f68
            saved = (rp.maxlist, rp.maxstring)
            rp.maxlist, rp.maxstring = st["maxlist"], st["maxstring"]
            try:
                try:
                    fn(xs=list(range(60)), s="q" * 300)
                    msg = "NO-VIOLATION"
                except icontract.ViolationError as e:
                    msg = str(e)
                ind = reprlib.Repr()
                if st["target"] == "default":
                    for a_, v_ in DEFAULT_REPR.items():
                        setattr(ind, a_, v_)
                ind.maxlist, ind.maxstring = st["maxlist"], st["maxstring"]
                results.append(("__arepr__", (st["target"], st["maxlist"], st["maxstring"]), (msg, ind.repr(list(range(60))), ind.repr("q" * 300)), {}))
            finally:
                rp.maxlist, rp.maxstring = saved
            return
        if k == "noise":
            try:
                L.f01(x=st["x"])
            except icontract.ViolationError:
                pass
            return
        if k == "fault":
            try:
                L.f35(d={}, k="missing")
            except KeyError:
                pass
            return
        case = by_id[st["case"]]
        fn, args, kw, selfobj = _call_case(L, case, st["order"])
        if selfobj is not None:
            kw = dict(kw, __self__=selfobj)
        try:
            r = fn(*args, **{k: v for k, v in kw.items() if k != "__self__"})
            if inspect.iscoroutine(r):
                import corodriver

                r.close()
                results.append((case["id"], st["order"], ("no-violation", "coroutine-not-driven"), kw))
                return
            results.append((case["id"], st["order"], ("no-violation", None), kw))
        except icontract.ViolationError as e:
            results.append((case["id"], st["order"], str(e), kw))
        except Exception as e:  # pylint: disable=broad-except
            results.append((case["id"], st["order"], ("exc", type(e).__name__ + ": " + str(e)[:200]), kw))

    async def async_step(st):
        if st["k"] == "case" and by_id[st["case"]].get("async"):
            case = by_id[st["case"]]
            fn, args, kw, selfobj = _call_case(L, case, st["order"])
            try:
                await fn(*args, **kw)
                results.append((case["id"], st["order"], ("no-violation", None), kw))
            except icontract.ViolationError as e:
                results.append((case["id"], st["order"], str(e), kw))
            except Exception as e:  # pylint: disable=broad-except
                results.append((case["id"], st["order"], ("exc", type(e).__name__ + ": " + str(e)[:200]), kw))
        else:
            sync_step(st)
        if st.get("pause"):
            await asyncio.sleep(st["pause"])

    eng = h["engine"]
    steps = [s for s in h["steps"]]
    if eng == "sync":
        for st in steps:
            if st["k"] == "case" and by_id[st["case"]].get("async"):
                simloop.run_in_loop(lambda st=st: async_step(st), contextvars.Context())
            else:
                sync_step(st)
    elif eng == "loop":

        async def actor(idx):
            for st, a in zip(steps, h["assign"]):
                if a == idx:
                    await async_step(st)

        async def main():
            loop = asyncio.get_running_loop()
            ts = [loop.create_task(actor(i), name="t%d" % i, context=contextvars.copy_context()) for i in range(h["actors"])]
            await asyncio.gather(*ts)

        simloop.run_in_loop(main, contextvars.Context())
    else:
        run = core.Run({})
        sim = threadsim.ThreadSim(run, h.get("choices") or [], line_level=True)
        plan = []
        for idx in range(2):

            def fn(idx=idx):
                for st, a in zip(steps, h["assign"]):
                    if a == idx:
                        sync_step(st)

            plan.append(("t%d" % idx, contextvars.Context(), fn))
        sim.run_all(plan)
        results.append(("__stats__", 0, ("handoffs", sim.handoffs), {}))
    return results


def worker(argv):
    seed, widx, nh = int(argv[0]), int(argv[1]), int(argv[2])
    only = int(argv[3]) if len(argv) > 3 else None
    prng = random.Random("%d:uuid:%d" % (seed, widx))
    uuid.uuid4 = lambda: uuid.UUID(int=prng.getrandbits(128), version=4)
    L = _load_fixture()
    by_id = {c["id"]: c for c in L.CASES}
    first = {}
    violations = []
    compared = {}
    handoffs = 0
    n_msgs = 0
    n_reload = 0
    for hi in range(nh):
        if only is not None and hi != only:
            continue
        r = random.Random("%d:C20:%d:%d" % (seed, widx, hi))
        h = gen_history(r, L)
        res = run_history(L, h, by_id)
        for cid, order, msg, kw in res:
            if cid == "__stats__":
                handoffs += msg[1]
                continue
            if cid == "__closure__":
                n_msgs += 1
                if msg[0] != msg[1]:
                    violations.append(
                        {
                            "rule": "C20.R1",
                            "classifier": "message-depends-on-earlier-violation-of-the-same-condition",
                            "detail": {"case": "closure", "limits": list(order), "second_violation": msg[0][:300], "fresh_twin": msg[1][:300], "history": hi},
                            "widx": widx,
                            "history": hi,
                        }
                    )
                continue
            if cid == "__longstr__":
                n_msgs += 1
                ms_ = re.search(r"(?:^|: )s was (.*)$", msg[0], re.M)
                if msg[0] != "NO-VIOLATION" and (not ms_ or ms_.group(1) != msg[1]):
                    violations.append(
                        {
                            "rule": "C20.R1",
                            "classifier": "long-string-rendered-as-another-value",
                            "detail": {"case": "longstr", "length": order[0], "index": order[1], "shown": (ms_.group(1)[:60] if ms_ else None), "want": msg[1][:60], "history": hi},
                            "widx": widx,
                            "history": hi,
                        }
                    )
                continue
            if cid == "__arepr__":
                n_msgs += 1
                mx = re.search(r"^xs was (.*)$", msg[0], re.M)
                ms_ = re.search(r"^s was (.*)$", msg[0], re.M)
                if not mx or not ms_ or mx.group(1) != msg[1] or ms_.group(1) != msg[2]:
                    violations.append(
                        {
                            "rule": "C20.R3",
                            "classifier": "limits-changed-after-definition-not-applied:%s" % order[0],
                            "detail": {"case": "arepr", "target": order[0], "maxlist": order[1], "maxstring": order[2], "shown_xs": (mx.group(1) if mx else None), "want_xs": msg[1], "shown_s_len": (len(ms_.group(1)) if ms_ else None), "want_s_len": len(msg[2]), "history": hi},
                            "widx": widx,
                            "history": hi,
                        }
                    )
                continue
            if cid == "__reload__":
                n_msgs += 1
                n_reload += 1
                if msg[0] != msg[1]:
                    violations.append(
                        {
                            "rule": "C20.R1",
                            "classifier": "message-after-source-reload-differs-from-fresh-load",
                            "detail": {"case": "reload", "variants": list(order), "after_reload": msg[0][:300], "fresh_load": msg[1][:300], "history": hi},
                            "widx": widx,
                            "history": hi,
                        }
                    )
                continue
            case = by_id[cid]
            n_msgs += 1
            if not isinstance(msg, str):
                violations.append({"rule": "C20.R1", "classifier": "no-message:%s" % msg[0], "detail": {"case": cid, "outcome": msg, "history": hi, "engine": h["engine"]}, "widx": widx, "history": hi})
                continue
            selfobj = kw.pop("__self__", None) if isinstance(kw, dict) else None
            compared.setdefault(cid, set()).add((tuple(kw.keys()), h["engine"]))
            if cid not in first:
                first[cid] = (msg, hi, h["engine"])
            elif first[cid][0] != msg:
                violations.append(
                    {
                        "rule": "C20.R1",
                        "classifier": "message-differs-within-process:%s" % h["engine"],
                        "detail": {"case": cid, "first": first[cid][0][:400], "first_at": first[cid][1:], "now": msg[:400], "kwargs_order": list(kw.keys()), "history": hi},
                        "widx": widx,
                        "history": hi,
                    }
                )
            for rule, cl, det in check_message(L, case, kw, msg, selfobj):
                violations.append({"rule": rule, "classifier": cl, "detail": det, "widx": widx, "history": hi})
    seen = set()
    uniq = []
    for v in violations:
        c = (v["rule"], v["classifier"], v["detail"].get("case"))
        if c not in seen:
            seen.add(c)
            uniq.append(v)
    out = {
        "widx": widx,
        "hashseed": os.environ.get("PYTHONHASHSEED"),
        "messages": {k: v[0] for k, v in first.items()},
        "violations": uniq[:20],
        "compared": {k: sorted([list(x[0]), x[1]] for x in v) for k, v in compared.items()},
        "n_messages": n_msgs,
        "handoffs": handoffs,
        "reloads": n_reload,
    }
    sys.stdout.write("C20WORKER " + json.dumps(out, default=str) + "\n")
    return 0


# -------------------------------------------------------------------------------------------------
def _launch(seed, widx, nh, hashseed, only=None):
    env = dict(os.environ)
    env["PYTHONHASHSEED"] = str(hashseed)
    cmd = [sys.executable, os.path.join(HERE, "run.py"), "--worker", "C20", str(seed), str(widx), str(nh)]
    if only is not None:
        cmd.append(str(only))
    return subprocess.Popen(cmd, stdout=subprocess.PIPE, stderr=subprocess.PIPE, env=env)


def _hashseed(seed, widx):
    return (seed * 1000003 + widx * 7919 + 1) % 4294967295


def main_check(tier, seed):
    t0 = time.time()
    nw = int(os.environ.get("VERIF_C20_WORKERS", "0") or 0) or WORKERS[tier]
    nh = int(os.environ.get("VERIF_RUNS", "0") or 0) or HISTORIES[tier]
    status = 0
    results = []
    pending = list(range(nw))
    running = []
    while pending or running:
        while pending and len(running) < 16:
            w = pending.pop(0)
            running.append((w, _launch(seed, w, nh, _hashseed(seed, w))))
        w, p = running.pop(0)
        so, se = p.communicate(timeout=3000)
        line = [l for l in so.decode(errors="replace").splitlines() if l.startswith("C20WORKER ")]
        if p.returncode != 0 or not line:
            sys.stdout.write("HARNESS-ERROR C20 worker %d failed (exit %s): %s\n" % (w, p.returncode, se.decode(errors="replace")[-1500:]))
            status = 2
            continue
        results.append(json.loads(line[0][len("C20WORKER "):]))
    violations = []
    ref = {}
    per_case_seeds = {}
    combos = {}
    for res in results:
        for v in res["violations"]:
            violations.append(v)
        for cid, msg in res["messages"].items():
            per_case_seeds.setdefault(cid, set()).add(res["hashseed"])
            if cid not in ref:
                ref[cid] = (msg, res["widx"], res["hashseed"])
            elif ref[cid][0] != msg:
                violations.append(
                    {
                        "rule": "C20.R1",
                        "classifier": "message-differs-across-processes",
                        "detail": {"case": cid, "reference": ref[cid][0][:400], "reference_worker": ref[cid][1:], "here": msg[:400], "hashseed": res["hashseed"]},
                        "widx": res["widx"],
                        "history": None,
                    }
                )
        for cid, lst in res["compared"].items():
            for order, eng in lst:
                combos.setdefault((cid, tuple(order), eng), set()).add(res["hashseed"])
    nontrivial = sum(1 for k, s in combos.items() if len(s) >= 2)
    os.makedirs(os.path.join(VERIF, "replays"), exist_ok=True)
    seen = set()
    for v in violations:
        c = (v["rule"], v["classifier"])
        if c in seen:
            continue
        seen.add(c)
        if len(seen) > 3:
            break
        path = os.path.join(VERIF, "replays", "C20-%d-%d.json" % (seed, len(seen)))
        with open(path, "w") as f:
            json.dump({"property": ID, "seed": seed, "workers": nw, "histories": nh, "violation_class": list(c), "violation": v, "worker": v.get("widx"), "history": v.get("history"), "hashseed": _hashseed(seed, v.get("widx") or 0)}, f, indent=1, default=str)
        sys.stdout.write("violation %s %s: %s\n" % (v["rule"], v["classifier"], json.dumps(v["detail"], default=str)[:700]))
        sys.stdout.write("VIOLATION property=%s replay=%s\n" % (ID, path))
        status = 1
    wall = time.time() - t0
    n_msgs = sum(r["n_messages"] for r in results)
    if not os.environ.get("VERIF_NO_EVIDENCE"):
        import run as runmod

        sample_case = sorted(ref)[0] if ref else None
        doc = {
            "property_id": ID,
            "tier": tier,
            "seed": seed,
            "level": LEVEL,
            "coverage": {
                "evaluations": n_msgs,
                "distinct_nontrivial": nontrivial,
                "rule": RULE_TEXT,
                "samples": [{"case": sample_case, "message": ref[sample_case][0][:300] if sample_case else None}, {"hash_seeds": sorted({r["hashseed"] for r in results})[:8]}],
                "interpreters": len(results),
                "histories": len(results) * nh,
                "cases_with_message": len(ref),
                "distinct_case_kworder_engine_combinations": len(combos),
                "thread_handoffs": sum(r["handoffs"] for r in results),
                "source_reload_steps": sum(r.get("reloads", 0) for r in results),
                "runs_per_hour": int(len(results) * nh * 3600 / max(wall, 1e-6)),
                "components": runmod.COMPONENTS,
                "exhaustive": False,
            },
            "assumptions": ASSUMPTIONS,
            "wall_s": round(wall, 2),
            "violations": len(seen),
        }
        with open(os.path.join(VERIF, "evidence", ID + ".json"), "w") as f:
            json.dump(doc, f, indent=1, sort_keys=True, default=str)
    sys.stdout.write("C20 %s: %d interpreters x %d histories, %d messages, %d cases, %d distinct non-trivial, %d violation classes in %.1fs\n" % (tier, len(results), nh, n_msgs, len(ref), nontrivial, len(seen), wall))
    return status


def replay(path):
    rep = json.load(open(path))
    os.environ["VERIF_NO_EVIDENCE"] = "1"
    os.environ["VERIF_C20_WORKERS"] = str(rep.get("workers", WORKERS["quick"]))
    os.environ["VERIF_RUNS"] = str(rep.get("histories", HISTORIES["quick"]))
    return main_check("quick", int(rep.get("seed", 0)))
