"""C11 - checking is re-armed after every outcome: no sticky suspension, no lost error.

Level: fault enumeration.  For a sampled (world, ticket) a dry run lists every hand-over point of the
call; the sweep then re-executes the ticket once per (point x applicable fault kind), each followed by
a fixed probe set in the same context.  Seeded fault *sequences* (2-6 faulted calls, possibly nested)
complement the single-fault sweeps.

Rules
  C11.R1  every probe verdict after the faulted call(s) equals its verdict in a pristine context
  C11.R2  the normalised suspension state read in the caller's context after *every* call (any nesting
          level) equals the one before it
  C11.R3  an injected exception surfaces at the call it was injected into as that very object, or as a
          wrapper whose __cause__ chain contains it; a failing value __repr__ may instead be absorbed by
          the repr machinery if the violation itself is still reported; a cancellation surfaces as
          CancelledError
"""
import asyncio
import contextvars
import copy

import core
import corodriver
import gen
import simloop
from props import common

ID = "C11"
LEVEL = "fault_enumeration"
RULE_TEXT = (
    "sweep: for a seeded world and ticket, a dry run lists all hand-over points (k-th condition, capture, error factory, truth test, "
    "repr, invariant, body entry/exit, each await); the ticket is re-executed once per point x applicable fault kind (8 exception classes "
    "incl. BaseException subclasses, failing __bool__, failing __repr__, self-cancellation at the p-th await, close()/throw() at the p-th "
    "suspension under the bare-coroutine driver), then a fixed probe set (pass + fail ticket per unit, re-entrant probes, same object) runs "
    "in the same context; sequences: 2-6 faulted calls then probes. evaluations = faulted executions; non-trivial = the fault actually "
    "fired; distinct = distinct (unit kind, hand-over role, fault kind, engine) tuples"
)
ASSUMPTIONS = [
    "faults are injected only at library->user / library->event-loop hand-overs, as the property states; asynchronous exceptions between two library lines are not injected",
    "reading icontract._checkers._IN_PROGRESS is diagnostic: if its representation is not None/set/frozenset of ints rule R2 is switched off and the behavioural rules R1/R3 remain",
]
RUNS = {"quick": 500, "thorough": 9000}
BUDGET_S = {"quick": 70, "thorough": 1200}
CHUNK = 5

EXCS = gen.EXC_FAULTS
BOOL_EXCS = ["FaultError", "FaultBase", "KeyboardInterrupt"]
REPR_EXCS = ["FaultError", "FaultBase"]


# -------------------------------------------------------------------------------------------------
# generation
# -------------------------------------------------------------------------------------------------
def make_probes(world, r=None):
    units = gen.units_of(world)
    probes = []
    for n, u in enumerate(units):
        ids = gen.site_ids(u)
        base = {"fn": u["fn"]}
        if u["obj"] is not None:
            base["obj"] = u["obj"]
        probes.append(dict(base, id="pr%d.ok" % n))
        conds = [x for x in ids if x[1] in ("pre", "post")]
        if conds:
            probes.append(dict(base, id="pr%d.bad" % n, sites={conds[0][0]: {"truth": False}}))
            if len(conds) > 1:
                probes.append(dict(base, id="pr%d.bad2" % n, sites={conds[-1][0]: {"truth": False}}))
            # a condition that re-enters its own function twice
            sid, kind, c = conds[0]
            if not u["async"] or c.get("style", "sync") != "sync":
                probes.append(dict(base, id="pr%d.re" % n, sites={sid: {"nested": [{"ref": "SELF"}, {"ref": "SELF"}]}}))
    return probes


def generate(r, tier):
    engine = r.choice(["sync", "sync", "loop", "loop", "coro"])
    is_async = engine != "sync"
    world = gen.gen_world(r, is_async, forms=True, with_class=0.7, async_methods=is_async and r.random() < 0.7, subclass=0.35)
    units = gen.units_of(world)
    profile = {"p_falsy": 0.6, "pause_density": 0.7, "p_nested": 0.3, "p_self": 0.5, "max_depth": 2, "max_fanout": 2, "p_fault": 0.0}
    scn = {"property": ID, "engine": engine, "world": world, "probes": make_probes(world)}
    if engine in ("loop", "coro") and r.random() < 0.2:
        # two checked async calls in flight in ONE context, ending in any order (tasks given the same Context object;
        # hand-driven coroutines closed first-in-first-out)
        aunits = [u for u in units if u["async"]]
        if aunits:
            scn["mode"] = "pair"
            pp = dict(profile, pause_density=1.0, p_nested=0.1)
            scn["faulted"] = [gen.gen_ticket(r, "pa", aunits, pp), gen.gen_ticket(r, "pb", aunits, pp)]
            scn["pair"] = {"cancel": r.choice([None, None, "pa", "pb"]), "t": r.choice([0.5, 1.5, 2.5]), "order": [r.randint(0, 1) for _ in range(12)], "close": r.choice(["fifo", "lifo", "none"])}
            return scn
    if engine == "coro" and r.random() < 0.3:
        # fire-and-forget: a contract or a body starts an async call in a copy of its context (which then holds the marks of
        # the calls in progress), leaves it suspended, and the pending coroutine is later closed from the spawning context
        aunits = [u for u in units if u["async"]]
        if aunits:
            scn["mode"] = "single"
            scn["foreign"] = True
            scn["faulted"] = []
            for i in range(r.randint(1, 3)):
                outer = gen.gen_ticket(r, "fo%d" % i, units, dict(profile, p_falsy=0.2))
                sp = {"spawn": gen.gen_ticket(r, "sp%d" % i, aunits, dict(profile, pause_density=1.0, p_nested=0.2, p_falsy=0.2)), "steps": r.randint(1, 3)}
                hosts = ["body"] + sorted((outer.get("sites") or {}).keys())
                h = r.choice(hosts[:1] * 2 + hosts)
                cfg = outer.setdefault("body", {}) if h == "body" else outer["sites"][h]
                cfg.setdefault("nested", []).append(sp)
                scn["faulted"].append(outer)
            return scn
    if r.random() < 0.7:
        scn["mode"] = "sweep"
        scn["base"] = gen.gen_ticket(r, "b", units, profile)
        if world.get("classes") and not is_async and r.random() < 0.2:
            # a constructor (possibly reaching a wrapped base constructor through super().__init__()) as the faulted call
            cs = r.choice(world["classes"])
            scn["base"] = {"id": "b", "fn": "__init__", "op": "new", "cls": cs["name"], "obj": "nb"}
        if not is_async and r.random() < 0.12:
            # a contract class WITHOUT a constructor of its own (the library installs a cooperative one) combined with a plain mix-in
            # whose constructor takes the arguments: whatever that constructor raises is the outcome of the construction
            world["classes"] += [
                {"name": "KA", "init": None, "invs": [{"check_on": "CALL"}], "methods": []},
                {"name": "MX", "dbc": False, "init": {"super": "first"}, "invs": [], "methods": []},
                {"name": "KB", "base": "KA", "bases2": ["MX"], "init": None, "invs": [], "methods": []},
            ]
            scn["base"] = {"id": "b", "fn": "__init__", "op": "new", "cls": "KB", "obj": "nb"}
        if world.get("classes") and world["classes"][0].get("invs") and "obj" in scn["base"] and r.random() < 0.5:
            inv = "K0/inv%d" % r.randrange(len(world["classes"][0]["invs"]))
            scn["base"]["poke"] = {inv: False}
    else:
        scn["mode"] = "single"
        kinds = ["raise", "bool", "repr"] + (["cancel"] if engine == "loop" else [])
        fp = dict(profile, p_fault=0.85, fault_kinds=kinds, p_nested=0.4)
        scn["faulted"] = [gen.gen_ticket(r, "q%d" % i, units, fp) for i in range(r.randint(2, 6))]
        if world.get("classes") and len(world["classes"]) == 1 and r.random() < 0.25:
            # a class of interned objects (``__new__`` returns the existing instance; no ``__init__``): constructing "again" is a
            # checked call like any other - also when a method of the very instance makes it
            world["classes"][0]["intern"] = True
            world["classes"][0].pop("init", None)
            for td in list(scn["faulted"]):
                if td.get("obj") and r.random() < 0.7:
                    nt = {"id": td["id"] + ".n", "fn": "__init__", "op": "new", "cls": "K0", "obj": td["obj"]}
                    td.setdefault("body", {}).setdefault("nested", []).insert(r.randint(0, len(td["body"].get("nested", []))), nt)
                elif r.random() < 0.5:
                    nt = {"id": td["id"] + ".t", "fn": "__init__", "op": "new", "cls": "K0", "obj": r.choice(world["objects"])["name"]}
                    if world["classes"][0].get("invs") and r.random() < 0.6:
                        # the existing instance is handed out again while one of its invariants does not hold: the construction fails
                        nt["poke"] = {"K0/inv%d" % r.randrange(len(world["classes"][0]["invs"])): False}
                    scn["faulted"].append(nt)
        if world.get("classes") and r.random() < 0.3:
            # the class is a proxy whose attribute look-up may fail: ``instance.__class__`` raises at its n-th look-up within a call
            world["classes"][0]["ga"] = True
            for td in scn["faulted"]:
                if td.get("obj") and r.random() < 0.7:
                    # (not AttributeError: isinstance()/hasattr() swallow it by design, so it need not surface)
                    td["ga"] = {"n": r.choice([0, 0, 1, 2, 3]), "exc": r.choice([x for x in EXCS if x != "AttributeError"])}
    return scn


# -------------------------------------------------------------------------------------------------
# execution of one faulted sequence + probes
# -------------------------------------------------------------------------------------------------
def _poke(run, td, revert):
    g = td.get("ga")
    if g and "obj" in td:
        o = run.world.objects.get(td["obj"])
        if o is not None:
            if revert:
                run.ga_armed.pop(id(o), None)
            else:
                run.ga_armed[id(o)] = dict(g)
    p = td.get("poke")
    if not p or "obj" not in td:
        return
    obj = run.world.objects.get(td["obj"])
    if obj is None:
        return
    if revert:
        for k in p:
            obj._flags.pop(k, None)
        orig = getattr(obj, "_orig_flags", None)
        if orig:
            obj._flags.update(orig)
    else:
        object.__setattr__(obj, "_orig_flags", {k: obj._flags[k] for k in p if k in obj._flags})
        obj._poke(p)


def _run_tickets(engine, world, tickets_faulted, probes, plan=None):
    """Execute faulted tickets then probes, all in ONE fresh context; returns the Run."""
    run = core.Run(world)
    common.setup_objects(run, world)
    ctx = contextvars.Context()
    stats = {}
    if engine == "sync":

        def go():
            run.enter_actor("main")
            for td in tickets_faulted:
                _poke(run, td, False)
                try:
                    run.call(td)
                finally:
                    _poke(run, td, True)
            run.ev("probes", None, None, None)
            for td in probes:
                run.call(td)

        ctx.run(go)
    elif engine == "loop":
        if plan is not None and plan.get("action") == "cancel":
            run.cancel_plan = {"top": plan["top"], "p": plan["p"]}

        async def do(td):
            if run.world.is_async(td):
                await run.acall(td)
            else:
                run.call(td)

        async def victim(td, vctx_box):
            # the faulted call in a task of its own; its context object is kept so that the probes can run in it afterwards
            run.enter_actor("main")
            vctx_box.append(contextvars.copy_context())
            await do(td)

        async def main():
            run.enter_actor("main")
            loop = asyncio.get_running_loop()
            probe_ctx = None
            for td in tickets_faulted:
                _poke(run, td, False)
                try:
                    if plan is not None and plan.get("top") == td["id"] and plan.get("action") == "timeout":
                        # cancellation delivered by asyncio.timeout at a virtual instant, in the caller's own task
                        run.faults_fired["timeout"] = run.faults_fired.get("timeout", 0) + 1
                        try:
                            async with asyncio.timeout(plan["t"]):
                                await do(td)
                        except TimeoutError:
                            pass
                    elif plan is not None and plan.get("top") == td["id"] and plan.get("action") == "cancel_ext":
                        # cancellation delivered by ANOTHER task at a virtual instant; the victim runs in a task whose
                        # context the probes re-use afterwards
                        vctx = contextvars.copy_context()
                        vt_ = loop.create_task(do(td), name="victim", context=vctx)

                        async def canceller():
                            await asyncio.sleep(plan["t"])
                            if not vt_.done():
                                run.faults_fired["cancel_ext"] = run.faults_fired.get("cancel_ext", 0) + 1
                                vt_.cancel()

                        ct = loop.create_task(canceller(), name="canceller", context=contextvars.Context())
                        await asyncio.gather(vt_, ct, return_exceptions=True)
                        probe_ctx = vctx
                    else:
                        await do(td)
                finally:
                    _poke(run, td, True)
                t = asyncio.current_task()
                while t.cancelling():
                    t.uncancel()
            run.cancel_plan = None
            run.ev("probes", None, None, None)

            async def run_probes():
                run.enter_actor("main")
                for td in probes:
                    await do(td)

            if probe_ctx is not None:
                await loop.create_task(run_probes(), name="probes", context=probe_ctx)
            else:
                await run_probes()

        _, vt = simloop.run_in_loop(main, ctx)
        stats["vtime"] = vt
    elif engine == "coro":
        run.sleep = corodriver.sleep

        def go():
            run.enter_actor("main")
            for td in tickets_faulted:
                _poke(run, td, False)
                try:
                    if run.world.is_async(td):
                        pl = None
                        if plan is not None and plan.get("top") == td["id"] and plan.get("action") in ("close", "throw"):
                            pl = {"p": plan["p"], "action": plan["action"]}
                            if plan["action"] == "throw":
                                e = core.FAULT_CLASSES[plan["exc"]]("thrown@suspension%d" % plan["p"])
                                e.verif_kind = "throw:" + plan["exc"]
                                e.verif_fault = (None, "suspension", e.verif_kind)
                                e.verif_thrown = True
                                pl["exc"] = e
                                pl["on_fire"] = lambda: setattr(run, "thrown_tx", run.actors["main"].tstack[-1])
                        corodriver.drive(run.acall(td), pl, run.faults_fired)
                        if pl is not None and pl.get("fired") and pl["action"] == "throw":
                            run.fired_excs.append(pl["exc"])
                    else:
                        run.call(td)
                finally:
                    _poke(run, td, True)
            if run.pending:
                run.close_pending()
            run.ev("probes", None, None, None)
            for td in probes:
                if run.world.is_async(td):
                    corodriver.drive(run.acall(td))
                else:
                    run.call(td)

        ctx.run(go)
    else:
        raise core.HarnessError("unknown engine " + engine)
    return run, stats


def _pristine(engine, world, probes):
    """Probe verdicts, each probe alone in a pristine context. Probes that hit a cap are dropped."""
    res = {}
    for td in probes:
        try:
            run, _ = _run_tickets(engine, world, [], [td])
        except core.Abort:
            res[td["id"]] = "ABORT"
            continue
        res[td["id"]] = run.outcomes[td["id"] + "#0"]["verdict"]
    return res


def _ukind(unit):
    if unit is None:
        return "?"
    if unit.endswith(".__init__"):
        return "ctor"
    return "method" if "." in unit else "func"


def _chain_has(top, e):
    c = top
    n = 0
    while c is not None and n < 8:
        if c is e:
            return True
        c = c.__cause__
        n += 1
    return False


def _strip_repr(td):
    t = copy.deepcopy(td)

    def go(x):
        for sc in (x.get("sites") or {}).values():
            f = sc.get("fault")
            if f is not None and f["kind"].startswith("repr:"):
                del sc["fault"]
            for n in sc.get("nested") or ():
                if isinstance(n, dict) and "id" in n:
                    go(n)
        for n in (x.get("body") or {}).get("nested") or ():
            if isinstance(n, dict) and "id" in n:
                go(n)

    go(t)
    return t


def _baseline_without_repr_faults(scn):
    """Verdicts of the faulted tickets when the failing __repr__ faults are removed (same engine, fresh run)."""
    if "_baseline" in scn:
        return scn["_baseline"]
    try:
        run, _ = _run_tickets(scn["engine"], scn["world"], [_strip_repr(t) for t in scn.get("faulted") or []], [], scn.get("plan"))
        res = common.verdict_map(run)
    except core.Abort:
        res = None
    scn["_baseline"] = res
    return res


def judge(run, pristine, scn, plan):
    violations = []
    engine = scn["engine"]
    # R1
    for td in scn.get("probes") or []:
        want = pristine.get(td["id"])
        if want == "ABORT":
            continue
        got = run.outcomes.get(td["id"] + "#0")
        gv = got["verdict"] if got else None
        if gv != want:
            violations.append(
                {
                    "rule": "C11.R1",
                    "classifier": "%s:%s:%s->%s" % (engine, _ukind(got["unit"] if got else None), want[0] if want else "absent", gv[0] if gv else "absent"),
                    "detail": {"probe": td["id"], "pristine": want, "after_faults": gv},
                }
            )
    # R2
    if run.marker_ok:
        for k in run.order:
            o = run.outcomes[k]
            if o["before"] is None or o["after"] is None or o["actor"] == "setup":
                continue
            if o["actor"].startswith("spawn"):
                continue  # started in one context, closed from another: its own before/after are not comparable
            if o["before"] != o["after"]:
                lost = sorted(set(o["before"]) - set(o["after"]))
                gained = sorted(set(o["after"]) - set(o["before"]))
                me = o["unit"] if _ukind(o["unit"]) == "func" else o["obj"]
                rel = "reentrant" if (o["unit"] in o["before"] or (o["obj"] is not None and o["obj"] in o["before"])) else "plain"
                what = "lost" if lost else "gained"
                own = "own" if me in (lost + gained) else "other"
                violations.append(
                    {
                        "rule": "C11.R2",
                        "classifier": "%s:%s:%s:%s-%s:%s" % (engine, _ukind(o["unit"]), rel, what, own, o["verdict"][0]),
                        "detail": {"call": k, "unit": o["unit"], "obj": o["obj"], "before": o["before"], "after": o["after"], "verdict": o["verdict"]},
                    }
                )
        fc = run.foreign_close
        if fc is not None and fc[2] and fc[0] != fc[1]:
            # closing a pending coroutine that was started in another context must not touch the closing context's marks
            violations.append(
                {
                    "rule": "C11.R2",
                    "classifier": "%s:marks-of-closing-context-changed-by-foreign-close:%s" % (engine, "gained" if set(fc[1]) - set(fc[0]) else "lost"),
                    "detail": {"before_close": fc[0], "after_close": fc[1], "closed": fc[2]},
                }
            )
    # R3
    for e in run.fired_excs:
        kind = getattr(e, "verif_kind", "?")
        if getattr(e, "verif_thrown", False):
            tx = getattr(run, "thrown_tx", None)
        else:
            tx = getattr(e, "verif_tx", None)
        out = getattr(tx, "outcome", None) if tx is not None else None
        if out is None:
            continue  # the call never completed (cap) - judged elsewhere
        top = out.get("exc_obj")
        if kind.startswith("raise:") or kind.startswith("throw:"):
            # an exception raised by a condition, capture, error factory, awaited operation or body surfaces as that very
            # object; the documented wrappers exist only for the truth test (ValueError) and the message building (RuntimeError)
            ok = top is e
        else:
            ok = top is not None and _chain_has(top, e)
        if not ok and kind.startswith("repr:"):
            # absorbed by the repr machinery: then the call must end exactly as it ends without the failing __repr__
            # (the violation is still reported; or, where an alternative precondition group holds, the call succeeds)
            base = _baseline_without_repr_faults(scn)
            key = tx.top.xid + "|" + tx.xid if tx.top is not tx else tx.xid
            ok = base is not None and base.get(key) == out["verdict"]
        if not ok:
            violations.append(
                {
                    "rule": "C11.R3",
                    "classifier": "%s:%s:%s" % (engine, kind.split(":")[0], out["verdict"][0]),
                    "detail": {"fault": kind, "site": e.verif_fault[1], "call": tx.xid, "surfaced": out["verdict"]},
                }
            )
    tx = run.cancel_fired_tx
    if tx is not None and tx.outcome is not None:
        top = tx.outcome.get("exc_obj")
        if not isinstance(top, asyncio.CancelledError):
            violations.append(
                {
                    "rule": "C11.R3",
                    "classifier": "%s:cancel:%s" % (engine, tx.outcome["verdict"][0]),
                    "detail": {"fault": "cancel at await", "call": tx.xid, "surfaced": tx.outcome["verdict"]},
                }
            )
    return violations


def _run_pair(scn, probes):
    """Two async tickets in flight in one shared context; then the probes in that context."""
    engine = scn["engine"]
    world = scn["world"]
    run = core.Run(world)
    common.setup_objects(run, world)
    ctx = contextvars.Context()
    ta, tb = scn["faulted"]
    pr = scn.get("pair") or {}
    if engine == "loop":

        async def one(td):
            run.enter_actor("main")
            await run.acall(td)

        async def main():
            loop = asyncio.get_running_loop()
            t1 = loop.create_task(one(ta), name="pa", context=ctx)
            t2 = loop.create_task(one(tb), name="pb", context=ctx)
            tasks = {"pa": t1, "pb": t2}
            if pr.get("cancel"):

                async def canceller():
                    await asyncio.sleep(pr.get("t", 0.5))
                    v = tasks[pr["cancel"]]
                    if not v.done():
                        run.faults_fired["cancel_ext"] = run.faults_fired.get("cancel_ext", 0) + 1
                        v.cancel()

                t3 = loop.create_task(canceller(), name="canceller", context=contextvars.Context())
                await asyncio.gather(t1, t2, t3, return_exceptions=True)
            else:
                await asyncio.gather(t1, t2, return_exceptions=True)

            async def run_probes():
                run.enter_actor("main")
                run.ev("probes", None, None, None)
                run.final_marker = run.marker()
                for td in probes:
                    if run.world.is_async(td):
                        await run.acall(td)
                    else:
                        run.call(td)

            await loop.create_task(run_probes(), name="probes", context=ctx)

        simloop.run_in_loop(main, contextvars.Context())
    else:
        run.sleep = corodriver.sleep

        def go():
            run.enter_actor("main")
            cos = [run.acall(ta), run.acall(tb)]
            alive = [True, True]
            order = list(pr.get("order") or [])
            k = 0
            steps = 0
            while any(alive) and steps < 200:
                steps += 1
                i = order[k % len(order)] if order else 0
                k += 1
                if not alive[i]:
                    i = 1 - i
                try:
                    cos[i].send(None)
                except StopIteration:
                    alive[i] = False
                if steps == 6 and pr.get("close") in ("fifo", "lifo"):
                    # abandon whatever is still suspended, first-in-first-out or last-in-first-out
                    seq = [0, 1] if pr["close"] == "fifo" else [1, 0]
                    for j in seq:
                        if alive[j]:
                            run.faults_fired["close"] = run.faults_fired.get("close", 0) + 1
                            cos[j].close()
                            alive[j] = False
            run.ev("probes", None, None, None)
            run.final_marker = run.marker()
            for td in probes:
                if run.world.is_async(td):
                    corodriver.drive(run.acall(td))
                else:
                    run.call(td)

        ctx.run(go)
    return run


def execute_pair(scn):
    engine = scn["engine"]
    probes = scn.get("probes") or []
    pristine = _pristine(engine, scn["world"], probes)
    live = [p for p in probes if pristine.get(p["id"]) != "ABORT"]
    try:
        run = _run_pair(scn, live)
    except core.Abort as a:
        return {"violations": [{"rule": "C11.R1", "classifier": "%s:pair:cap-%s" % (engine, a), "detail": "cap hit"}], "digest": None, "stats": {}, "fired": []}
    violations = []
    for td in live:
        want = pristine.get(td["id"])
        got = run.outcomes.get(td["id"] + "#0")
        gv = got["verdict"] if got else None
        if gv != want:
            violations.append({"rule": "C11.R1", "classifier": "%s:pair:%s->%s" % (engine, want[0] if want else "absent", gv[0] if gv else "absent"), "detail": {"probe": td["id"], "pristine": want, "after_pair": gv, "pair": scn.get("pair")}})
    fm = getattr(run, "final_marker", None)
    if run.marker_ok and fm not in (None, ()):
        violations.append({"rule": "C11.R2", "classifier": "%s:pair:marks-left-after-both-calls-ended" % engine, "detail": {"left": fm, "pair": scn.get("pair")}})
    stats = {"events": len(run.log), "faults": dict(run.faults_fired), "suspensions": run.suspensions, "probes": {"two_calls_in_one_context": 1}}
    fired = [("pair", "await", "interleaved-in-one-context", engine)]
    return {"violations": violations, "digest": run.digest(), "stats": stats, "fired": fired, "engine": engine}


def execute_single(scn, pristine=None):
    engine = scn["engine"]
    world = scn["world"]
    probes = scn.get("probes") or []
    if pristine is None:
        pristine = _pristine(engine, world, probes)
    live = [p for p in probes if pristine.get(p["id"]) != "ABORT"]
    plan = scn.get("plan")
    try:
        run, st = _run_tickets(engine, world, scn.get("faulted") or [], live, plan)
    except core.Abort as a:
        return {
            "violations": [{"rule": "C11.R1", "classifier": "%s:cap-%s-after-fault" % (engine, a), "detail": "a per-run cap was hit in the faulted run but not in the pristine probes"}],
            "digest": None,
            "stats": {},
            "fired": [],
        }
    violations = judge(run, pristine, scn, plan)
    # cancellation must surface as CancelledError at the call it hit
    if plan is not None and plan.get("action") == "cancel":
        pass
    fired = []
    for e in run.fired_excs:
        tx = getattr(e, "verif_tx", None)
        sid = e.verif_fault[1] if getattr(e, "verif_fault", None) else "?"
        role = "await" if sid == "suspension" else ("body" if sid == "body" else sid.rsplit("/", 1)[-1].rstrip("0123456789"))
        if sid.endswith("/err"):
            role = "err"
        fired.append((_ukind(tx.unit) if tx is not None else "?", role, getattr(e, "verif_kind", "?"), engine))
    for k in ("cancel", "cancel@await", "close", "throw"):
        if run.faults_fired.get(k):
            fired.append(("?", "await", k, engine))
    stats = dict(st)
    stats["events"] = len(run.log)
    stats["faults"] = dict(run.faults_fired)
    stats["suspensions"] = run.suspensions
    stats["probes"] = {"pristine_probe_hit_cap": sum(1 for v in pristine.values() if v == "ABORT")}
    stats["state_sigs"] = [common.h64(x) for x in run.states]
    stats["switch_sigs"] = [common.h64(common.switch_signature(run.log))]
    return {"violations": violations, "digest": run.digest(), "stats": stats, "fired": fired, "engine": engine}


# -------------------------------------------------------------------------------------------------
# sweeps
# -------------------------------------------------------------------------------------------------
def _find(td, tid):
    if td.get("id") == tid:
        return td
    for s in (td.get("sites") or {}).values():
        for n in s.get("nested") or ():
            if isinstance(n, dict) and "id" in n:
                x = _find(n, tid)
                if x is not None:
                    return x
    for n in (td.get("body") or {}).get("nested") or ():
        if isinstance(n, dict) and "id" in n:
            x = _find(n, tid)
            if x is not None:
                return x
    return None


def expand(scn):
    """Dry-run the base ticket and return the list of single-fault scenarios of the sweep."""
    engine = scn["engine"]
    base = scn["base"]
    try:
        dry, _ = _run_tickets(engine, scn["world"], [base], [])
    except core.Abort:
        return None
    singles = []
    seen = set()
    n_susp = 0
    total_wait = [0]

    def single(ticket, plan=None):
        s = {"property": ID, "mode": "single", "engine": engine, "world": scn["world"], "probes": scn["probes"], "faulted": [ticket]}
        if plan is not None:
            s["plan"] = plan
        singles.append(s)

    for n, actor, kind, sid, xid, detail in dry.log:
        if actor != "main":
            continue
        tid = xid.split("#")[0] if xid else None
        if kind in ("pre", "post", "snap", "err", "inv", "inverr"):
            key = (tid, sid, detail if isinstance(detail, int) else 0)
            occ = 0
            # occurrence index within this execution: count earlier identical (xid, sid) events
            occ = sum(1 for e in dry.log[:n] if e[4] == xid and e[3] == sid and e[2] == kind)
            key = (tid, sid, occ)
            if key in seen:
                continue
            seen.add(key)
            faults = [{"kind": "raise:" + x, "occ": occ} for x in EXCS]
            if engine == "sync":
                # (inside a coroutine PEP 479 turns StopIteration into RuntimeError: Python's business, so sync only)
                faults.append({"kind": "raise:StopIteration", "occ": occ})
            if kind in ("pre", "post", "inv"):
                faults += [{"kind": "bool:" + x, "occ": occ} for x in BOOL_EXCS]
                faults += [{"kind": "repr:" + x, "occ": occ} for x in REPR_EXCS]
            for f in faults:
                t = copy.deepcopy(base)
                tgt = _find(t, tid)
                if tgt is None:
                    continue
                cfg = tgt.setdefault("sites", {}).setdefault(sid, {})
                cfg["fault"] = f
                if f["kind"].startswith("repr:") and kind != "inv":
                    cfg["truth"] = False
                single(t)
        elif kind == "body":
            occ = sum(1 for e in dry.log[:n] if e[4] == xid and e[2] == "body")
            key = (tid, "body", occ)
            if key in seen:
                continue
            seen.add(key)
            for pos in ("pre", "post"):
                for x in EXCS:
                    t = copy.deepcopy(base)
                    tgt = _find(t, tid)
                    if tgt is None:
                        continue
                    tgt.setdefault("body", {})["fault"] = {"kind": "raise:" + x, "pos": pos, "occ": occ}
                    single(t)
        elif kind == "await":
            if engine == "loop":
                single(copy.deepcopy(base), {"action": "cancel", "top": base["id"], "p": n_susp})
                total_wait[0] += detail if isinstance(detail, (int, float)) else 0
            elif engine == "coro":
                single(copy.deepcopy(base), {"action": "close", "top": base["id"], "p": n_susp})
                for x in ("FaultError", "FaultBase", "KeyboardInterrupt", "CancelledError"):
                    single(copy.deepcopy(base), {"action": "throw", "top": base["id"], "p": n_susp, "exc": x})
            n_susp += 1
    if engine == "loop" and n_susp:
        # cancellation from outside at virtual instants spread over the call's waiting time (half units avoid ties with timers)
        horizon = int(min(total_wait[0], 8))
        for k in range(0, horizon + 1):
            single(copy.deepcopy(base), {"action": "timeout", "top": base["id"], "t": k + 0.5})
            single(copy.deepcopy(base), {"action": "cancel_ext", "top": base["id"], "t": k + 0.5})
    return singles


def execute(scn):
    if scn.get("mode") == "sweep":
        singles = expand(scn)
        if singles is None:
            return {"violations": [], "skipped": "dry run hit a cap", "evaluations": 1, "stats": {}}
        pristine = _pristine(scn["engine"], scn["world"], scn.get("probes") or [])
        violations = []
        nontrivial = set()
        stats = {"events": 0, "faults": {}, "sweeps": 1, "points_x_kinds": len(singles), "suspensions": 0, "probes": {}}
        digests = []
        for s in singles:
            res = execute_single(s, pristine)
            digests.append(res.get("digest"))
            s.pop("_baseline", None)
            for v in res["violations"]:
                v = dict(v)
                v["scenario"] = s
                violations.append(v)
            for f in res.get("fired") or []:
                nontrivial.add(common.h64(f))
            st = res.get("stats") or {}
            stats["events"] += st.get("events", 0)
            stats["suspensions"] += st.get("suspensions", 0)
            for k, v in (st.get("faults") or {}).items():
                stats["faults"][k] = stats["faults"].get(k, 0) + v
            for k, v in (st.get("probes") or {}).items():
                stats["probes"][k] = stats["probes"].get(k, 0) + v
            stats.setdefault("state_sigs", set()).update(st.get("state_sigs") or ())
            stats.setdefault("switch_sigs", set()).update(st.get("switch_sigs") or ())
        stats["state_sigs"] = sorted(stats.get("state_sigs") or ())
        stats["switch_sigs"] = sorted(stats.get("switch_sigs") or ())
        # keep one violation per class to bound the report
        seen = set()
        uniq = []
        for v in violations:
            c = (v["rule"], v["classifier"])
            if c not in seen:
                seen.add(c)
                uniq.append(v)
        return {
            "violations": uniq,
            "evaluations": max(1, len(singles)),
            "nontrivial": nontrivial,
            "stats": stats,
            "digest": "%015x" % common.h64(digests),
            "engine": scn["engine"],
        }
    if scn.get("mode") == "pair":
        res = execute_pair(scn)
        res["nontrivial"] = {common.h64(f) for f in res.get("fired") or []}
        res["evaluations"] = 1
        return res
    res = execute_single(scn)
    scn.pop("_baseline", None)
    res["nontrivial"] = {common.h64(f) for f in res.get("fired") or []}
    res["evaluations"] = 1
    return res
