"""C15 - disabled contracts are absent; enabled ones do not depend on interpreter mode.

The configuration space is small and is enumerated completely: interpreter {normal, -O, -OO} x ICONTRACT_SLOW
{unset, empty, non-empty} = 9 fresh interpreters.  In each of them a worker
  A. walks the matrix decorator kind {require, ensure, snapshot, invariant} x enabled form {default, True, False,
     icontract.SLOW} x callable/class kind and checks, for every cell whose *expected* effective enabledness
     (computed from the interpreter flags and the environment, not from the library) is false:  the decorator returns
     the very object it was given, adds no attribute to it (and changes none of an existing checker's lists), and never
     calls its condition/capture; for cells expected enabled it checks that the contract is enforced            (C15.R1)
  B. executes a seeded batch of simulated runs (C10/C13-style worlds with faults, every contract explicitly
     enabled=True); the per-run event-log digests must be identical in all 9 interpreters                        (C15.R2)
  C. executes a seeded batch of worlds in which a random subset of the contracts uses a non-True enabled form, and the
     same worlds with the contracts expected to be disabled in this configuration left out; digests must agree and no
     hand-over of a disabled contract may appear in the log                                                      (C15.R1)
"""
import contextvars
import copy
import dataclasses
import inspect
import json
import os
import subprocess
import sys
import time

HERE = os.path.dirname(os.path.dirname(os.path.abspath(__file__)))
VERIF = os.path.dirname(HERE)

ID = "C15"
LEVEL = "exploration"
RULE_TEXT = (
    "9 fresh interpreters (normal/-O/-OO x ICONTRACT_SLOW unset/empty/non-empty), complete, plus 6 matrix-only interpreters with other non-empty values ('0', 'false', blank, 'No', 'off'); in each: the full matrix decorator kind x enabled "
    "form x callable kind (absence / enforcement), a seeded batch of all-enabled simulated runs whose digests must agree across interpreters, and "
    "a seeded batch of worlds with mixed enabled forms compared with the same worlds without the contracts expected to be disabled. "
    "non-trivial/distinct = distinct (configuration, decorator kind, enabled form, callable kind) matrix cells exercised plus distinct batch digests"
)
ASSUMPTIONS = [
    "expected effective enabledness is computed from sys.flags.optimize and os.environ in the worker: default -> not optimised; SLOW -> not optimised and ICONTRACT_SLOW non-empty",
    "the configuration matrix is enumerated completely; the simulated batches are samples",
]
MODES = [[], ["-O"], ["-OO"]]
SLOWS = [None, "", "x"]
N_BATCH = {"quick": 150, "thorough": 2500}
# further non-empty values of ICONTRACT_SLOW ("set to a non-empty string" - whatever the string says): matrix only
EXTRA_SLOWS = [([], "0"), ([], "false"), ([], " "), ([], "No"), ([], "off"), (["-O"], "0")]


# -------------------------------------------------------------------------------------------------
# worker (runs inside each configuration)
# -------------------------------------------------------------------------------------------------
def _expected(form):
    opt = sys.flags.optimize > 0
    if form == "true":
        return True
    if form == "false":
        return False
    if form == "default":
        return not opt
    if form == "slow":
        return (not opt) and os.environ.get("ICONTRACT_SLOW", "") != ""
    raise ValueError(form)


def _kw(form):
    import icontract

    return {"true": {"enabled": True}, "false": {"enabled": False}, "default": {}, "slow": {"enabled": icontract.SLOW}}[form]


def _matrix():
    import asyncio

    import icontract

    cells = []
    problems = []

    def note(cell, ok, why=""):
        cells.append(cell)
        if not ok:
            problems.append({"cell": cell, "why": why})

    def snapshot_vars(obj):
        d = dict(vars(obj))
        for k in ("__preconditions__", "__postconditions__", "__postcondition_snapshots__"):
            if k in d:
                d[k] = json.dumps([[id(c) for c in g] if isinstance(g, list) else id(g) for g in d[k]])
        return d

    def mk_original(kind):
        calls = []
        if kind == "async_function":

            async def f(x):
                calls.append(x)
                return x

        else:

            def f(x):
                calls.append(x)
                return x

        if kind == "stacked":
            f = icontract.require(lambda x: True, enabled=True)(f)
        return f, calls

    def run_f(f, x):
        if inspect.iscoroutinefunction(f):
            import corodriver

            return corodriver.drive(f(x))
        return f(x)

    for form in ("default", "true", "false", "slow"):
        exp = _expected(form)
        for deco in ("require", "ensure", "snapshot"):
            for kind in ("function", "async_function", "stacked", "staticmethod", "classmethod", "property", "method"):
                cell = [deco, form, kind]
                counter = []
                f, calls = mk_original(kind)
                if deco == "snapshot":
                    f = icontract.ensure(lambda result: True, enabled=True)(f)
                before = snapshot_vars(f)

                def cond(x):
                    counter.append(x)
                    return x >= 0

                def post(x, result):
                    counter.append(x)
                    return x >= 0

                def cap(x):
                    counter.append(x)
                    return x

                if deco == "require":
                    dec = icontract.require(cond, **_kw(form))
                elif deco == "ensure":
                    dec = icontract.ensure(post, **_kw(form))
                else:
                    dec = icontract.snapshot(cap, name="sx", **_kw(form))
                g = dec(f)
                try:
                    ok_call = run_f(g, 1)
                    exc_ok = None
                except BaseException as e:  # pylint: disable=broad-except
                    exc_ok = e
                try:
                    run_f(g, -1)
                    exc_bad = None
                except BaseException as e:  # pylint: disable=broad-except
                    exc_bad = e
                if not exp:
                    ok = g is f and snapshot_vars(f) == before and not counter and exc_ok is None and exc_bad is None
                    note(cell, ok, "disabled decorator left traces: same=%s vars_equal=%s calls=%d exc=%r/%r" % (g is f, snapshot_vars(f) == before, len(counter), exc_ok, exc_bad))
                else:
                    if deco == "snapshot":
                        ok = g is f and len(counter) == 2 and exc_ok is None and exc_bad is None
                    else:
                        ok = len(counter) >= 2 and exc_ok is None and isinstance(exc_bad, icontract.ViolationError)
                    note(cell, ok, "enabled contract not enforced: calls=%d exc=%r/%r" % (len(counter), exc_ok, exc_bad))
        if not exp:
            # a disabled decorator must return the very object also when it is given a descriptor object
            for deco in ("require", "ensure", "snapshot"):
                def _wraps_over_contracted(fn):
                    # a third-party functools.wraps wrapper around a function that already carries an (explicitly enabled) contract
                    import functools

                    inner = icontract.require(lambda: True, enabled=True)(fn)

                    @functools.wraps(inner)
                    def outer(*a, **k):
                        return inner(*a, **k)

                    return outer

                def _invariant_wrapped_method(fn):
                    @icontract.invariant(lambda self: True, enabled=True)
                    class _K:
                        def m(self, *a):
                            return 1

                    return _K.__dict__["m"]

                for kind, mk in (
                    ("staticmethod_object", staticmethod),
                    ("classmethod_object", classmethod),
                    ("property_object", property),
                    ("wraps_over_contracted_function", _wraps_over_contracted),
                    ("invariant_wrapped_method", _invariant_wrapped_method),
                ):

                    def plain(*a):
                        return 1

                    given = mk(plain)
                    if deco == "require":
                        dec = icontract.require(lambda: True, **_kw(form))
                    elif deco == "ensure":
                        dec = icontract.ensure(lambda result: True, **_kw(form))
                    else:
                        dec = icontract.snapshot(lambda: 1, name="sy", **_kw(form))
                    try:
                        got = dec(given)
                        note([deco, form, kind], got is given, "disabled decorator did not return the given %s" % kind)
                    except BaseException as e:  # pylint: disable=broad-except
                        note([deco, form, kind], False, "disabled decorator raised %r" % e)
        for kind in ("plain", "dbc", "dataclass", "slots", "subclass-of-invariant-class", "dbc-subclass-of-invariant-class"):
            cell = ["invariant", form, kind]
            counter = []

            def inv(self):
                counter.append(1)
                return self.x >= 0

            if kind == "dbc":

                class K(icontract.DBC):
                    def __init__(self, x):
                        self.x = x

                    def m(self):
                        return self.x

            elif kind in ("subclass-of-invariant-class", "dbc-subclass-of-invariant-class"):
                # the class already inherits an (explicitly enabled) invariant and adds members of its own;
                # a disabled decorator must not take the occasion to wrap them
                @icontract.invariant(lambda self: self.x > -100, enabled=True)
                class KBase(*((icontract.DBC,) if kind.startswith("dbc") else ())):
                    def __init__(self, x):
                        self.x = x

                class K(KBase):
                    def m(self):
                        return self.x

                    @property
                    def p(self):
                        return self.x

            elif kind == "dataclass":

                @dataclasses.dataclass
                class K:
                    x: int

                    def m(self):
                        return self.x

            elif kind == "slots":

                class K:
                    __slots__ = ("x",)

                    def __init__(self, x):
                        self.x = x

                    def m(self):
                        return self.x

            else:

                class K:
                    def __init__(self, x):
                        self.x = x

                    def m(self):
                        return self.x

            before_keys = sorted(K.__dict__.keys())
            before_vals = {k: id(v) for k, v in K.__dict__.items()}
            K2 = icontract.invariant(inv, **_kw(form))(K)
            try:
                K2(1).m()
                exc_ok = None
            except BaseException as e:  # pylint: disable=broad-except
                exc_ok = e
            try:
                K2(-1)
                exc_bad = None
            except BaseException as e:  # pylint: disable=broad-except
                exc_bad = e
            if not exp:
                same = K2 is K and sorted(K.__dict__.keys()) == before_keys and {k: id(v) for k, v in K.__dict__.items()} == before_vals
                note(cell, same and not counter and exc_ok is None and exc_bad is None, "disabled invariant left traces: same=%s calls=%d exc=%r/%r" % (same, len(counter), exc_ok, exc_bad))
            else:
                note(cell, K2 is K and len(counter) >= 3 and exc_ok is None and isinstance(exc_bad, icontract.ViolationError), "enabled invariant not enforced: calls=%d exc=%r/%r" % (len(counter), exc_ok, exc_bad))
    return cells, problems


def _mixed_world(r):
    import gen

    w = gen.gen_world(r, False, nfuncs=(1, 2), with_class=0.6, forms=False)
    forms = ["true", "false", "default", "slow"]

    def mark(u):
        u["no_old"] = True
        for role in ("pre", "post"):
            for c in u.get(role) or ():
                c["enabled"] = r.choice(forms)
        for c in u.get("snaps") or ():
            # a snapshot needs a postcondition below it: give it the form of the innermost postcondition
            c["enabled"] = u["post"][0]["enabled"] if u.get("post") else "false"

    for f in w["funcs"]:
        mark(f)
    for c in w["classes"]:
        for m in c["methods"]:
            mark(m)
        for inv in c["invs"]:
            inv["enabled"] = r.choice(forms)
    return w


def _omit_disabled(w):
    w2 = copy.deepcopy(w)
    disabled = []

    def fix(owner, u):
        for role, key in (("pre", "pre"), ("post", "post"), ("snaps", "snap")):
            for i, c in enumerate(u.get(role) or ()):
                if not _expected(c.get("enabled", "true")):
                    c["omit"] = True
                    disabled.append("%s/%s%d" % (owner, key, i))

    for f in w2["funcs"]:
        fix(f["name"], f)
    for c in w2["classes"]:
        for m in c["methods"]:
            fix("%s.%s" % (c["name"], m["name"]), m)
        for i, inv in enumerate(c["invs"]):
            if not _expected(inv.get("enabled", "true")):
                inv["omit"] = True
                disabled.append("%s/inv%d" % (c["name"], i))
    return w2, disabled


def _run_world(world, tickets):
    import core
    from props import common

    run = core.Run(world)
    common.setup_objects(run, world)

    def go():
        run.enter_actor("a")
        for td in tickets:
            run.call(td)

    contextvars.Context().run(go)
    return run


def worker(argv):
    seed, n = int(argv[0]), int(argv[1])
    import gen
    import run as runmod

    out = {"config": {"optimize": sys.flags.optimize, "slow_env": os.environ.get("ICONTRACT_SLOW"), "debug": __debug__}}
    cells, problems = _matrix()
    out["cells"] = cells
    out["problems"] = problems
    # B: all-enabled batches of the simulation checks, digests per index
    digs = {}
    for pid in ("C10", "C13", "C11", "C17", "C03"):
        mod = runmod.load(pid)
        k = n if pid != "C11" else max(3, n // 40)
        if pid == "C17":
            k = n * 2
        lst = []
        for i in range(k):
            scn = mod.generate(gen.rng_for(seed, "C15:" + pid, i), "quick")
            if scn.get("line_level"):
                # line-level pre-emption points are the source lines of icontract, and -O removes the assert lines: the
                # schedule itself would differ between configurations. Hand-over-level switching is mode-independent.
                scn["line_level"] = False
            try:
                res = mod.execute(scn)
                lst.append([res.get("digest"), sorted((v["rule"], v["classifier"]) for v in res.get("violations") or [])])
            except BaseException as e:  # pylint: disable=broad-except
                # a run that cannot complete in this configuration (e.g. unbounded recursion) is an outcome to compare, not a crash
                lst.append(["run-did-not-complete:%s" % type(e).__name__, []])
        digs[pid] = lst
    out["digests"] = digs
    # C: mixed enabled forms vs the same worlds with the expected-disabled contracts omitted
    mism = []
    ncmp = 0
    for i in range(n):
        r = gen.rng_for(seed, "C15:mixed", i)
        w = _mixed_world(r)
        units = gen.units_of(w)
        profile = {"p_falsy": 0.6, "p_nested": 0.2, "p_self": 0.3, "max_depth": 2, "max_fanout": 2, "p_fault": 0.2, "fault_kinds": ["raise", "bool"]}
        tickets = [gen.gen_ticket(r, "a.%d" % j, units, profile) for j in range(r.randint(2, 4))]
        w2, disabled = _omit_disabled(w)
        rb = _run_world(w2, tickets)
        ncmp += 1
        try:
            ra = _run_world(w, tickets)
        except Exception as e:  # pylint: disable=broad-except
            # the world without the disabled contracts can be built and run, the one with them cannot
            mism.append({"index": i, "disabled": disabled, "error_with_disabled_contracts_present": "%s: %s" % (type(e).__name__, str(e)[:200]), "world": w})
            continue
        hit = sorted({e[3] for e in ra.log if e[3] in disabled})
        if ra.digest() != rb.digest() or hit:
            mism.append({"index": i, "disabled": disabled, "evaluated_although_disabled": hit, "digest_with": ra.digest(), "digest_without": rb.digest(), "world": w, "tickets": tickets})
    out["mixed"] = {"compared": ncmp, "mismatches": mism[:3], "n_mismatches": len(mism)}
    # F: invariant worlds (C03) whose invariants use mixed ``enabled`` forms, judged in THIS configuration by C03's invariant
    #    model with the enabledness the configuration implies: explicitly enabled invariants must be enforced around every
    #    public operation whether or not the neighbouring default/SLOW ones are in force
    c03 = runmod.load("C03")
    cfg = {"optimize": sys.flags.optimize > 0, "slow": os.environ.get("ICONTRACT_SLOW", "") != ""}
    model_bad = []
    n_model = 0
    for i in range(n * 24):
        scn = c03.generate(gen.rng_for(seed, "C15:forms", i), "quick", forms=True)
        scn["_cfg"] = cfg
        try:
            res = c03.execute(scn)
        except BaseException as e:  # pylint: disable=broad-except
            model_bad.append({"index": i, "error": "%s: %s" % (type(e).__name__, str(e)[:200])})
            continue
        n_model += 1
        if res.get("violations"):
            v = res["violations"][0]
            model_bad.append({"index": i, "rule": v["rule"], "classifier": v["classifier"], "detail": v.get("detail"), "classes": scn["classes"]})
    out["forms_model"] = {"judged": n_model, "mismatches": model_bad[:3], "n_mismatches": len(model_bad)}
    # D: the violation messages of the (explicitly enabled) fixture contracts of C20, to be compared across configurations
    import copy as _copy

    sys.path.insert(0, os.path.join(VERIF, "fixtures"))
    import icontract
    import lambda_contracts as L

    msgs = {}
    for case in L.CASES:
        kwargs = dict(case["kwargs"])
        if "fresh" in case:
            kwargs.update(_copy.deepcopy(case["fresh"]))
        try:
            if "self" in case:
                o = getattr(L, case["self"][0])(*_copy.deepcopy(case["self"][1]))
                r = getattr(o, case["fn"].split(".")[1])(*case["args"], **kwargs)
            else:
                r = getattr(L, case["fn"])(*case["args"], **kwargs)
            if inspect.iscoroutine(r):
                import simloop

                async def _aw(r=r):
                    return await r

                simloop.run_in_loop(_aw, contextvars.Context())
            msgs[case["id"]] = "NO-VIOLATION"
        except icontract.ViolationError as e:
            msgs[case["id"]] = str(e)
        except Exception as e:  # pylint: disable=broad-except
            msgs[case["id"]] = "%s: %s" % (type(e).__name__, str(e)[:200])
    out["messages"] = msgs
    sys.stdout.write("C15WORKER " + json.dumps(out, default=str) + "\n")
    return 0


# -------------------------------------------------------------------------------------------------
# driver
# -------------------------------------------------------------------------------------------------
def _launch(mode, slow, seed, n):
    env = dict(os.environ)
    env["PYTHONHASHSEED"] = "0"
    env.pop("ICONTRACT_SLOW", None)
    if slow is not None:
        env["ICONTRACT_SLOW"] = slow
    cmd = [sys.executable] + mode + [os.path.join(HERE, "run.py"), "--worker", "C15", str(seed), str(n)]
    return subprocess.Popen(cmd, stdout=subprocess.PIPE, stderr=subprocess.PIPE, env=env)


def main_check(tier, seed):
    t0 = time.time()
    n = int(os.environ.get("VERIF_RUNS", "0") or 0) or N_BATCH[tier]
    procs = []
    extra_cells = set()
    extra_violations = []
    for mode in MODES:
        for slow in SLOWS:
            procs.append((mode, slow, _launch(mode, slow, seed, n)))
    extra = [(mode, slow, _launch(mode, slow, seed, 0)) for mode, slow in EXTRA_SLOWS]
    results = []
    status = 0
    for mode, slow, p in extra:
        so, se = p.communicate(timeout=2400)
        line = [l for l in so.decode(errors="replace").splitlines() if l.startswith("C15WORKER ")]
        if p.returncode != 0 or not line:
            sys.stdout.write("HARNESS-ERROR worker %s ICONTRACT_SLOW=%r failed (exit %s): %s\n" % (mode, slow, p.returncode, se.decode(errors="replace")[-1500:]))
            status = 2
            continue
        res = json.loads(line[0][len("C15WORKER "):])
        cfg = "%s/set:%r" % ("".join(mode) or "normal", slow)
        for c in res["cells"]:
            extra_cells.add((cfg,) + tuple(c))
        for pr in res["problems"]:
            extra_violations.append({"rule": "C15.R1", "classifier": "matrix:%s:%s" % (cfg, ":".join(pr["cell"])), "detail": pr, "config": cfg})
    for mode, slow, p in procs:
        so, se = p.communicate(timeout=2400)
        line = [l for l in so.decode(errors="replace").splitlines() if l.startswith("C15WORKER ")]
        if p.returncode != 0 or not line:
            sys.stdout.write("HARNESS-ERROR worker %s ICONTRACT_SLOW=%r failed (exit %s): %s\n" % (mode, slow, p.returncode, se.decode(errors="replace")[-1500:]))
            status = 2
            continue
        results.append((mode, slow, json.loads(line[0][len("C15WORKER "):])))
    violations = list(extra_violations)
    cells = set(extra_cells)
    for mode, slow, res in results:
        cfg = "%s/%s" % ("".join(mode) or "normal", "unset" if slow is None else ("empty" if slow == "" else "set"))
        for c in res["cells"]:
            cells.add((cfg,) + tuple(c))
        for pr in res["problems"]:
            violations.append({"rule": "C15.R1", "classifier": "matrix:%s:%s" % (cfg, ":".join(pr["cell"])), "detail": pr, "config": cfg})
        fm = res.get("forms_model") or {}
        if fm.get("n_mismatches"):
            mm = fm["mismatches"][0]
            violations.append({"rule": "C15.R2", "classifier": "enabled-invariant-not-enforced-as-modelled:%s:%s" % (cfg, mm.get("classifier") or "error"), "detail": mm, "config": cfg})
        if res["mixed"]["n_mismatches"]:
            violations.append({"rule": "C15.R1", "classifier": "disabled-contract-not-absent-in-simulation:%s" % cfg, "detail": res["mixed"]["mismatches"][0], "config": cfg})
    if results:
        ref_mode, ref_slow, ref = results[0]
        for mode, slow, res in results[1:]:
            cfg = "%s/%s" % ("".join(mode) or "normal", "unset" if slow is None else ("empty" if slow == "" else "set"))
            for pid, lst in res["digests"].items():
                a = ref["digests"][pid]
                diff = [i for i in range(min(len(a), len(lst))) if a[i] != lst[i]]
                if diff or len(a) != len(lst):
                    violations.append({"rule": "C15.R2", "classifier": "digest-differs:%s:%s" % (cfg, pid), "detail": {"engine": pid, "first_index": diff[:5], "reference": a[diff[0]] if diff else None, "here": lst[diff[0]] if diff else None}, "config": cfg})
    if results:
        ref_msgs = results[0][2].get("messages") or {}
        for mode, slow, res in results[1:]:
            cfg = "%s/%s" % ("".join(mode) or "normal", "unset" if slow is None else ("empty" if slow == "" else "set"))
            for cid, msg in sorted((res.get("messages") or {}).items()):
                if ref_msgs.get(cid) != msg:
                    violations.append({"rule": "C15.R2", "classifier": "message-of-enabled-contract-differs:%s" % cfg, "detail": {"case": cid, "reference": (ref_msgs.get(cid) or "")[:300], "here": msg[:300]}, "config": cfg})
                    break
    digests = set()
    nruns = 0
    for mode, slow, res in results:
        for pid, lst in res["digests"].items():
            nruns += len(lst)
            for d in lst:
                digests.add(str(d[0]))
        nruns += res["mixed"]["compared"] * 2
        nruns += (res.get("forms_model") or {}).get("judged", 0)
    os.makedirs(os.path.join(VERIF, "replays"), exist_ok=True)
    seen = set()
    for v in violations:
        if v["classifier"] in seen:
            continue
        seen.add(v["classifier"])
        if len(seen) > 3:
            break
        path = os.path.join(VERIF, "replays", "C15-%d-%d.json" % (seed, len(seen)))
        with open(path, "w") as f:
            json.dump({"property": ID, "seed": seed, "n": n, "violation_class": [v["rule"], v["classifier"]], "violation": v}, f, indent=1, default=str)
        sys.stdout.write("violation %s %s: %s\n" % (v["rule"], v["classifier"], json.dumps(v["detail"], default=str)[:600]))
        sys.stdout.write("VIOLATION property=%s replay=%s\n" % (ID, path))
        status = 1
    wall = time.time() - t0
    if not os.environ.get("VERIF_NO_EVIDENCE"):
        import run as runmod

        doc = {
            "property_id": ID,
            "tier": tier,
            "seed": seed,
            "level": LEVEL,
            "coverage": {
                "evaluations": len(cells) + nruns,
                "distinct_nontrivial": len(cells) + len(digests),
                "rule": RULE_TEXT,
                "samples": [{"cell": list(c)} for c in sorted(cells)[:5]] + [{"configurations": [[m, s] for m, s, _ in results]}],
                "matrix_cells": len(cells),
                "matrix_exhaustive": True,
                "configurations": len(results),
                "simulated_runs": nruns,
                "distinct_batch_digests": len(digests),
                "runs_per_hour": int(nruns * 3600 / max(wall, 1e-6)),
                "components": runmod.COMPONENTS,
                "exhaustive": False,
            },
            "assumptions": ASSUMPTIONS,
            "wall_s": round(wall, 2),
            "violations": len(seen),
        }
        with open(os.path.join(VERIF, "evidence", ID + ".json"), "w") as f:
            json.dump(doc, f, indent=1, sort_keys=True, default=str)
    sys.stdout.write("C15 %s: %d configurations, %d matrix cells, %d simulated runs in %.1fs, %d violation classes\n" % (tier, len(results), len(cells), nruns, wall, len(seen)))
    return status


def replay(path):
    """Re-run the whole (small, enumerated) configuration matrix with the recorded seed and batch size."""
    rep = json.load(open(path))
    os.environ["VERIF_RUNS"] = str(rep.get("n", N_BATCH["quick"]))
    os.environ["VERIF_NO_EVIDENCE"] = "1"
    return main_check("quick", int(rep.get("seed", 0)))
