"""C03 - invariants are checked around every public operation on a constructed object.

Workload: seeded *operation histories* on instances of generated classes of the shapes the property names
(plain, __slots__, dataclass, namedtuple-like without __init__, with / without the DBC base, constructors that
call the base constructor first / last / never, subclasses adding a constructor to a base without one), with
members of every kind and 0-3 invariants per class with every check_on combination in every decorator order,
inherited through 1-3 levels.  Faults: constructor raising, body raising, invariant condition raising; async
profile: two tasks calling async public methods of the same instance.

Oracle: a small *invariant model* written from the statement: which invariants (by check_on, collected over the
hierarchy from the class declarations, not from the library's lists) must be evaluated before and after which
operation, and none otherwise.
  C03.R1  with all invariants true, the set of invariants evaluated before / after each operation equals the model's
  C03.R2  with a falsy invariant in the expected set the operation raises that invariant's violation, and a
          failing "before" keeps the body from running
  C03.R3  no invariant is evaluated on an object whose (outermost) constructor has not returned
Not compared (statement silent): evaluation after a raising body; C-level slot wrappers inherited from object;
property assignment when attribute-set checking wraps __setattr__ (nesting rule of C10 applies).
"""
import asyncio
import collections
import contextvars
import dataclasses

import icontract

import core
import simloop
from props import common

ID = "C03"
LEVEL = "exploration"
RULE_TEXT = (
    "seeded operation histories (3-12 operations: construct, public/async/dunder/property/static/class/protected/private member use, "
    "attribute assignment, repr, state flips through a non-public method, bodies that raise or call public members of the same object) on "
    "1-3 instances of 1-4 generated classes (shapes plain/slots/dataclass/namedtuple, DBC or decorator-only, 0-3 invariants per class with "
    "check_on CALL/SETATTR/ALL in any decorator order, 1-3 inheritance levels, constructors calling super first/last/never or added by a "
    "subclass). non-trivial = an operation for which the model expects at least one invariant evaluation; distinct = distinct (class shape, "
    "member kind, check_on mix of the hierarchy, inheritance depth, outcome class) tuples among those"
)
ASSUMPTIONS = [
    "the invariant model (about 60 lines) is written from the property statement; expected sets are computed from the generated class declarations, not from the library's lists",
    "only members defined in Python by the generated classes are used as operations (slot wrappers inherited from object are not compared)",
    "non-DBC (decorator-only) classes are not subclassed by the generator (the statement's inheritance clause is about the contract-inheriting base)",
]
RUNS = {"quick": 40000, "thorough": 600000}
BUDGET_S = {"quick": 70, "thorough": 1200}
CHUNK = 200

CHECK_ON = {"CALL": icontract.InvariantCheckEvent.CALL, "SETATTR": icontract.InvariantCheckEvent.SETATTR, "ALL": icontract.InvariantCheckEvent.ALL}
DUNDERS = ["__len__", "__call__", "__getitem__", "__str__", "__eq__", "__hash__", "__iter__", "__contains__", "__bool__", "__enter__", "__lt__"]


# -------------------------------------------------------------------------------------------------
# building classes of every shape (real decorators, real metaclass)
# -------------------------------------------------------------------------------------------------
def build_class(run, cs):
    world = run.world
    name = cs["name"]
    shape = cs.get("shape", "plain")
    base = world.classes[cs["base"]] if cs.get("base") else None
    ns = {"__qualname__": name, "__module__": "verif_world"}

    def mk_method(mname, is_async=False, ret=None):
        if is_async:

            async def raw(self, t=None):
                r = await run.abody(self)
                return r

        else:

            def raw(self, *a):
                r = run.body(self)
                return ret(r) if ret is not None else r

        raw.__name__ = mname
        raw.__qualname__ = "%s.%s" % (name, mname)
        run.idmap[id(raw)] = "%s.%s" % (name, mname)
        return raw

    for ms in cs.get("members", ()):
        k = ms["kind"]
        mn = ms["name"]
        if k in ("method", "protected", "private"):
            ns[mn] = mk_method(mn)
        elif k == "amethod":
            ns[mn] = mk_method(mn, is_async=True)
        elif k == "gen":
            # a public generator method: calling it creates the generator object (the body starts at the first next())
            def graw(self, *a):
                yield 1
                yield 2

            graw.__name__ = mn
            graw.__qualname__ = "%s.%s" % (name, mn)
            run.idmap[id(graw)] = "%s.%s" % (name, mn)
            ns[mn] = graw
        elif k == "alias_of":
            ns[mn] = ns[ms["of"]]  # ``append = push``: a second public name for the same function
        elif k == "lambda":
            ns[mn] = (lambda self, *a: run.body(self))  # a lambda assigned in the class body (__name__ == "<lambda>")
        elif k == "nowraps":
            inner_f = mk_method(mn)

            def _deco(f):
                def inner(self, *a):
                    return f(self, *a)

                return inner  # a decorator that does not use functools.wraps (__name__ == "inner")

            ns[mn] = _deco(inner_f)
        elif k == "dunder":
            ret = {
                "__len__": lambda r: 3,
                "__str__": lambda r: "str",
                "__call__": None,
                "__getitem__": None,
                "__eq__": lambda r: True,
                "__lt__": lambda r: False,
                "__hash__": lambda r: 7,
                "__iter__": lambda r: iter(()),
                "__contains__": lambda r: True,
                "__bool__": lambda r: True,
                "__enter__": None,
            }[mn]
            ns[mn] = mk_method(mn, ret=ret)
            if mn == "__enter__":
                ex = mk_method("__exit__", ret=lambda r: False)
                ns["__exit__"] = ex
        elif k == "static":

            def sraw(*a):
                return run.body()

            sraw.__name__ = mn
            ns[mn] = staticmethod(sraw)
        elif k == "class":

            def craw(cls, *a):
                return run.body()

            craw.__name__ = mn
            ns[mn] = classmethod(craw)
        elif k == "prop_ext":
            # a subclass extending a property of its base with a setter: @Base.prop.setter
            import inspect as _inspect

            bp = _inspect.getattr_static(base, mn)
            s2 = mk_method(mn)

            def fset2(self, value, _s=s2):
                _s(self)

            fset2.__name__ = mn
            ns[mn] = bp.setter(fset2)
        elif k == "protected_prop":
            gp = mk_method(mn)

            def pget(self, _g=gp):
                return _g(self)

            pget.__name__ = mn

            def pset(self, value, _g=gp):
                _g(self)

            pset.__name__ = mn
            ns[mn] = property(pget, pset)
        elif k == "prop":
            g = mk_method(mn)

            def fget(self, _g=g):
                return _g(self)

            fget.__name__ = mn
            fset = fdel = None
            if ms.get("set"):
                s_ = mk_method(mn)

                def fset(self, value, _s=s_):
                    _s(self)

                fset.__name__ = mn
            if ms.get("del"):
                d_ = mk_method(mn)

                def fdel(self, _d=d_):
                    _d(self)

                fdel.__name__ = mn
            ns[mn] = property(fget, fset, fdel)

    def __repr__(self):
        run.ev("repr_body", None, None, run.label_of(self))
        return "O<%s>" % (run.label_of(self) or "?")

    ns["__repr__"] = __repr__

    def _poke(self, flags):
        run.flags_of(self).update(flags)

    ns["_poke"] = _poke

    init = cs.get("init")
    if shape in ("plain", "slots") and init is not None:
        sup = init.get("super", "first")
        base_has_init = base is not None and _spec_has_init(world, cs.get("base"))
        unit = "%s.__init__" % name

        def raw_init(self, t=None):
            a = run.actor()
            tx = a.tstack[-1]
            label = tx.td.get("obj")
            outermost = run.label_of(self) is None
            if outermost:
                run.register(self, label, tx.td.get("flags"))
            a.stack.append(("ctor", unit, run.label_of(self), None))
            try:
                if sup == "first" and base_has_init:
                    base.__init__(self, t)
                elif sup == "first" and base is not None:
                    super(cls_box[0], self).__init__()
                run.ev("ctor_body", None, tx.xid, run.label_of(self))
                f = (tx.td.get("body") or {}).get("fault")
                if f is not None and f.get("at") == unit:
                    e = run.make_fault(tx, "body", f["kind"])
                    run.fired(e)
                    raise e
                for n in (tx.td.get("body") or {}).get("nested", ()):
                    if n.get("at", unit) == unit:
                        run.nested(a, tx, n)
                if cs.get("init_sets_attr"):
                    self.x = 1
                if sup == "last" and base_has_init:
                    base.__init__(self, t)
            finally:
                a.stack.pop()

        raw_init.__name__ = "__init__"
        raw_init.__qualname__ = unit
        ns["__init__"] = raw_init
    if cs.get("setattr_alias"):
        # the class implements attribute assignment under another name and binds it: ``__setattr__ = _set``
        def _set(self, attr_name, value):
            object.__setattr__(self, attr_name, value)

        ns["_set"] = _set
        ns["__setattr__"] = _set
    cls_box = [None]
    if shape == "slots":
        ns["__slots__"] = ("x", "_flags", "_label", "_repr_armed") if base is None else ("y%s" % name,)
    bases = []
    if base is not None:
        bases.append(base)
    mix = [world.classes[x] for x in cs.get("mixins", ())]
    if cs.get("mixin_first"):
        bases = mix + bases
    else:
        bases = bases + mix
    if shape == "namedtuple":
        # (a default for the field, so that the class can be instantiated without arguments - what copy/pickle-style code does)
        bases.append(collections.namedtuple(name + "Base", ["x"], defaults=[cs.get("nt_default", 1)]))
        if cs.get("nt_slots"):
            ns["__slots__"] = ()  # like typing.NamedTuple classes: the instances have no __dict__
    if shape == "listlike" and base is None:
        bases.append(list)  # a built-in with its own (slot-wrapper) __init__ and __new__; the class defines no constructor
    if cs.get("dbc", True) and shape not in ("namedtuple",) and not any(isinstance(b, icontract.DBCMeta) for b in bases):
        bases.append(icontract.DBC)
    if shape == "dataclass":
        ns["__annotations__"] = {"x": int}
        ns["x"] = 0
        unit = "%s.__post_init__" % name

        def __post_init__(self):
            a = run.actor()
            tx = a.tstack[-1]
            if run.label_of(self) is None:
                run.register(self, tx.td.get("obj"), tx.td.get("flags"))
            run.ev("ctor_body", None, tx.xid, run.label_of(self))

        ns["__post_init__"] = __post_init__
    if bases:
        cls = type(bases[0])(name, tuple(bases), ns)
    else:
        cls = type(name, (), ns)
    if shape == "dataclass":
        cls = dataclasses.dataclass(cls)
    cls_box[0] = cls
    for i, inv in enumerate(cs.get("invs", ())):
        sid = "%s/inv%d" % (name, i)

        def mk(_sid, _content=inv.get("content")):
            if _content == "le2":

                def c(self):
                    return run.hit(_sid, "inv", self) and list.__len__(self) <= 2

            elif _content == "x_le2":

                def c(self):
                    return run.hit(_sid, "inv", self) and tuple.__getitem__(self, 0) <= 2

            else:

                def c(self):
                    return run.hit(_sid, "inv", self)

            c.__name__ = "i_" + core._san(_sid)
            return c

        dec = icontract.invariant(mk(sid), description="[[%s]]" % sid, check_on=CHECK_ON[inv.get("check_on", "CALL")], **core.World._enabled_kw(inv))
        cls = dec(cls)
        world.contracts[sid] = dec._invariant
    world.classes[name] = cls
    world.cspec[name] = cs
    return cls


def _root_shape(world, cname):
    while cname:
        cs = world.cspec.get(cname)
        if cs is None:
            return None
        if not cs.get("base"):
            return cs.get("shape", "plain")
        cname = cs.get("base")
    return None


def _spec_has_init(world, cname):
    """Does the class or one of its ancestors *declare* a constructor (by the generated spec, not by introspection)?"""
    while cname:
        cs = world.cspec.get(cname)
        if cs is None:
            return False
        if cs.get("init") is not None:
            return True
        cname = cs.get("base")
    return False


# -------------------------------------------------------------------------------------------------
# the invariant model
# -------------------------------------------------------------------------------------------------
def hierarchy(scn, cname):
    """The class, its plain mix-ins and its ancestors, most derived first; the last element is always the root of the
    contract-base chain (callers read the shape from it).  Mix-ins are plain classes without invariants, so for the model
    only the set of members and invariants matters, not the exact linearisation."""
    out = []
    specs = {c["name"]: c for c in scn["classes"]}
    c = specs[cname]
    while c is not None:
        out.append(c)
        out.extend(specs[x] for x in c.get("mixins", ()))
        c = specs.get(c.get("base")) if c.get("base") else None
    return _root_last(out)


def _root_last(seq):
    """Keep the order but make sure the root of the base chain is the last element (callers read the shape from it)."""
    mix = [x for x in seq if x.get("is_mixin")]
    chain = [x for x in seq if not x.get("is_mixin")]
    return chain[:-1] + mix + chain[-1:] if chain else mix


def _effective(form, cfg):
    """Is a contract with this ``enabled`` form in force in the interpreter configuration ``cfg``?"""
    if form == "true":
        return True
    if form == "false":
        return False
    if form == "default":
        return not cfg["optimize"]
    if form == "slow":
        return (not cfg["optimize"]) and bool(cfg["slow"])
    raise ValueError(form)


def inv_sets(scn, cname):
    """(all, on_call, on_setattr) invariant site ids of the class and its ancestors."""
    al, oc, os_ = set(), set(), set()
    cfg = scn.get("_cfg")
    for c in hierarchy(scn, cname):
        for i, inv in enumerate(c.get("invs", ())):
            sid = "%s/inv%d" % (c["name"], i)
            if cfg is not None and not _effective(inv.get("enabled", "true"), cfg):
                continue
            al.add(sid)
            if inv.get("check_on", "CALL") in ("CALL", "ALL"):
                oc.add(sid)
            if inv.get("check_on", "CALL") in ("SETATTR", "ALL"):
                os_.add(sid)
    return al, oc, os_


def member_kind(scn, cname, member):
    for c in hierarchy(scn, cname):
        for m in c.get("members", ()):
            if m["name"] == member:
                return m["kind"]
    return None


def expected(scn, cname, op):
    """(before set, after set) the model demands for ``op`` on an instance of ``cname``; None = not compared."""
    al, oc, os_ = inv_sets(scn, cname)
    kind = op["op"]
    if kind in ("new", "reinit"):
        return set(), set(al)
    if kind in ("call", "acall"):
        mk = member_kind(scn, cname, op["member"])
        if mk in ("method", "amethod", "dunder", "alias_of", "lambda", "nowraps", "gen"):
            return set(oc), set(oc)
        return set(), set()
    if kind in ("get", "set", "del") and member_kind(scn, cname, op.get("member")) == "protected_prop":
        if kind == "get":
            return set(), set()
        return None if os_ else (set(), set())
    if kind == "get":
        return set(oc), set(oc)
    if kind in ("set", "del"):
        if os_:
            return None  # __setattr__/__delattr__ wrapping nests the accessor: C10's nesting rule, not compared
        return set(oc), set(oc)
    if kind == "setattr":
        return set(os_), set(os_)
    if kind == "delattr":
        return set(oc), set(oc)
    if kind in ("repr", "poke"):
        return set(), set()
    return None


# -------------------------------------------------------------------------------------------------
# generation
# -------------------------------------------------------------------------------------------------
def generate(r, tier, forms=False):
    engine = "sync" if r.random() < 0.8 else "loop"
    classes = []
    n_roots = 1
    shapes_root = r.choice([["plain"], ["plain"], ["slots"], ["dataclass"], ["namedtuple"], ["plain"], ["listlike"]])
    inv_mix = r.choice([["CALL"], ["CALL", "SETATTR", "ALL"], ["SETATTR", "CALL"], ["CALL", "CALL", "ALL"], ["SETATTR"]])
    root = {"name": "K0", "shape": shapes_root[0], "dbc": shapes_root[0] != "namedtuple" and r.random() < 0.8, "invs": [], "members": []}
    if root["shape"] in ("plain", "slots"):
        root["init"] = {"super": "first"} if r.random() < 0.8 else None
    if root["shape"] == "listlike":
        root["init"] = None
        if root["init"] is not None and r.random() < 0.3:
            root["init_sets_attr"] = True

    classes_shape = [shapes_root[0]]
    if root["shape"] == "plain" and r.random() < 0.12:
        root["setattr_alias"] = True
    if root["shape"] == "namedtuple":
        root["nt_default"] = r.choice([1, 3])
        root["nt_slots"] = r.random() < 0.5

    def gen_members(c, level):
        pool = [("g%d" % level, "gen"), ("m%d" % level, "method"), ("n%d" % level, "method"), ("_p%d" % level, "protected"), ("__q%d" % level, "private"), ("s%d" % level, "static"), ("c%d" % level, "class"), ("pr%d" % level, "prop"), ("_pp%d" % level, "protected_prop")]
        if engine == "loop":
            pool.append(("am%d" % level, "amethod"))
            pool.append(("am%d" % level, "amethod"))
        r.shuffle(pool)
        seen = set()
        for mn, k in pool[: r.randint(1, 4)]:
            if mn in seen:
                continue
            seen.add(mn)
            m = {"name": mn, "kind": k}
            if k == "prop":
                m["set"] = r.random() < 0.6
                m["del"] = r.random() < 0.3
            c["members"].append(m)
        if r.random() < 0.25:
            meths = [m for m in c["members"] if m["kind"] == "method"]
            kind_ = r.choice(["alias_of", "lambda", "nowraps"])
            if kind_ == "alias_of" and meths:
                c["members"].append({"name": "al%d" % level, "kind": "alias_of", "of": r.choice(meths)["name"]})
            elif kind_ != "alias_of":
                c["members"].append({"name": "%s%d" % ("lm" if kind_ == "lambda" else "nw", level), "kind": kind_})
        if r.random() < 0.5 and classes_shape[0] != "listlike":
            d = r.choice(DUNDERS)
            c["members"].append({"name": d, "kind": "dunder"})
            if d == "__eq__":
                # Python sets __hash__ to None in a class that defines __eq__ alone; define both, as real classes do
                c["members"].append({"name": "__hash__", "kind": "dunder"})
        # overriding a base member
        return c

    gen_members(root, 0)
    for i in range(r.randint(0, 3)):
        inv = {"check_on": r.choice(inv_mix)}
        if root["shape"] == "listlike" and r.random() < 0.6:
            inv["content"] = "le2"  # the invariant also looks at the content the constructor fills in
        if root["shape"] == "namedtuple" and r.random() < 0.6:
            inv["content"] = "x_le2"  # the invariant looks at the field value given to __new__
        root["invs"].append(inv)
    classes.append(root)
    depth = r.choice([0, 1, 1, 2]) if root["dbc"] and root["shape"] in ("plain", "slots", "dataclass") else 0
    if root["shape"] == "listlike" and root["dbc"]:
        depth = r.choice([0, 0, 1])
    prev = root
    for lvl in range(1, depth + 1):
        c = {"name": "K%d" % lvl, "shape": "plain" if prev["shape"] != "slots" else r.choice(["plain", "slots"]), "dbc": True, "base": prev["name"], "invs": [], "members": []}
        has_init_above = any(x.get("init") is not None or x["shape"] == "dataclass" for x in classes)
        if prev["shape"] == "dataclass" or root["shape"] == "listlike":
            c["init"] = None
        elif r.random() < 0.6:
            c["init"] = {"super": r.choice(["first", "first", "last", "never"])}
        else:
            c["init"] = None
        gen_members(c, lvl)
        # sometimes extend a read-only property of an ancestor with a setter (@Base.prop.setter)
        ro = []
        for anc in classes:
            for m in anc["members"]:
                if m["kind"] == "prop" and not m.get("set"):
                    ro.append(m["name"])
        if ro and r.random() < 0.5:
            pn = r.choice(ro)
            if not any(x["name"] == pn for x in c["members"]):
                c["members"].append({"name": pn, "kind": "prop_ext", "set": True})
        # sometimes override a base's public method
        base_methods = [m for m in prev["members"] if m["kind"] in ("method",)]
        if base_methods and r.random() < 0.5:
            c["members"].append(dict(r.choice(base_methods)))
        for i in range(r.randint(0, 2)):
            c["invs"].append({"check_on": r.choice(inv_mix)})
        if r.random() < 0.3 and root["shape"] in ("plain", "slots") and prev["shape"] != "slots":
            # a plain mix-in (no contract base, no invariants) providing public methods, listed before or after the contract base
            mx = {"name": "M%d" % lvl, "shape": "plain", "dbc": False, "is_mixin": True, "invs": [], "members": [{"name": "mx%d" % lvl, "kind": "method"}], "init": None}
            if r.random() < 0.4 and base_methods:
                mx["members"].append(dict(r.choice(base_methods)))  # the mix-in overrides a public method of the base
            classes.append(mx)
            c["mixins"] = [mx["name"]]
            c["mixin_first"] = r.random() < 0.5
        classes.append(c)
        prev = c
    if forms:
        for c in classes:
            for inv in c["invs"]:
                inv["enabled"] = r.choice(["true", "true", "default", "default", "slow"])
    scn = {"property": ID, "engine": engine, "classes": classes, "ops": []}
    # operations
    objs = {}
    failed = {}
    nobj = 0
    ops = []
    for i in range(r.randint(3, 12)):
        if not objs or (r.random() < 0.15 and nobj < 3):
            c = r.choice([x for x in classes if not x.get("is_mixin")])
            label = "o%d" % nobj
            nobj += 1
            op = {"op": "new", "cls": c["name"], "obj": label}
            if hierarchy(scn, c["name"])[-1].get("shape") in ("listlike", "namedtuple"):
                op["content"] = r.choice([0, 1, 2, 3, 3])
                if hierarchy(scn, c["name"])[-1].get("shape") == "namedtuple" and r.random() < 0.3:
                    # constructed without arguments: the field takes its default
                    op["noargs"] = True
                    op["content"] = hierarchy(scn, c["name"])[-1].get("nt_default", 1)
            if r.random() < 0.12 and core_has_ctor_body(scn, c["name"]):
                al, _, _ = inv_sets(scn, c["name"])
                if al:
                    op["flags"] = {r.choice(sorted(al)): False}
            if r.random() < 0.1:
                chain = [x for x in hierarchy(scn, c["name"]) if x.get("init") is not None]
                if chain:
                    op["ctor_raise"] = r.choice(chain)["name"] + ".__init__"
            if "ctor_raise" in op and r.random() < 0.5:
                op["drop"] = True  # forget the failed object entirely (its address may be reused by the next instance)
            ops.append(op)
            content_bad = op.get("content", 0) > 2 and any(i.get("content") in ("le2", "x_le2") for x in hierarchy(scn, c["name"]) for i in x.get("invs", ()))
            if "ctor_raise" not in op and "flags" not in op and not content_bad:
                objs[label] = c["name"]
            elif "ctor_raise" in op and not op.get("drop"):
                failed[label] = c["name"]
            continue
        if failed and r.random() < 0.3:
            # two-phase initialisation: run the constructor again on the object whose construction failed
            label = r.choice(sorted(failed))
            ops.append({"op": "reinit", "obj": label})
            objs[label] = failed.pop(label)
            continue
        label = r.choice(sorted(objs))
        cname = objs[label]
        members = []
        for c in hierarchy(scn, cname):
            for m in c["members"]:
                if m["name"] not in [x["name"] for x in members]:
                    members.append(m)
        x = r.random()
        al, oc, os_ = inv_sets(scn, cname)
        if x < 0.12 and al and engine == "sync":
            ops.append({"op": "poke", "obj": label, "flags": {r.choice(sorted(al)): r.random() < 0.4}})
        elif x < 0.2:
            o_ = {"op": "setattr", "obj": label}
            if hierarchy(scn, cname)[-1].get("shape", "plain") in ("plain", "dataclass") and r.random() < 0.3:
                o_["attr"] = r.choice(["__tag__", "__version__", "__doc__"])  # an attribute with a dunder name is an attribute like any other
            ops.append(o_)
        elif x < 0.25:
            ops.append({"op": "repr", "obj": label})
        elif x < 0.29 and hierarchy(scn, cname)[-1].get("shape", "plain") in ("plain", "dataclass"):
            # ``del obj.attr`` of a plain attribute: __delattr__ is a special method like any other (a call, not an assignment)
            ops.append({"op": "delattr", "obj": label})
        elif members:
            m = r.choice(members)
            if m["kind"] == "protected_prop":
                op = {"op": r.choice(["get", "set"]), "obj": label, "member": m["name"]}
                ops.append(op)
                continue
            if m["kind"] in ("prop", "prop_ext"):
                acc = ["get"] + (["set", "set"] if m.get("set") else []) + (["del"] if m.get("del") else [])
                op = {"op": r.choice(acc), "obj": label, "member": m["name"]}
            elif m["kind"] == "amethod":
                op = {"op": "acall", "obj": label, "member": m["name"]}
            else:
                op = {"op": "call", "obj": label, "member": m["name"]}
            if r.random() < 0.1 and op["op"] in ("call", "acall"):
                op["raise"] = True
            if r.random() < 0.15 and op["op"] == "call" and m["kind"] in ("method", "dunder", "alias_of", "nowraps"):
                pubs = [y for y in members if y["kind"] == "method"]
                if pubs:
                    op["nested"] = [r.choice(pubs)["name"]]
            if op["op"] == "acall":
                op["pause"] = r.choice([None, 0, 1, 2])
            ops.append(op)
    scn["ops"] = ops
    if engine == "loop":
        # a second task that calls async public methods of the same instances
        scn["actor2"] = [dict(o, pause=r.choice([0, 1, 2])) for o in ops if o["op"] == "acall"][:4]
        acalls = [o for o in ops if o["op"] == "acall"]
        if acalls and r.random() < 0.35:
            # both tasks share ONE Context object and work on different instances of the same class
            first = acalls[0]
            cname = None
            for o in ops:
                if o["op"] == "new" and o["obj"] == first["obj"]:
                    cname = o["cls"]
            if cname is not None and core_has_ctor_body(scn, cname):
                scn["shared_context"] = True
                # staggered waits so that the calls of the two tasks end in non-LIFO order, and the first task still has
                # operations left after the second one has finished
                tail = [o for o in ops if o.get("obj") == first["obj"] and o["op"] in ("call", "get", "acall")][:3]
                scn["ops"] = [o for o in ops if o["op"] == "new" and o["obj"] == first["obj"]] + [
                    dict(first, pause=r.choice([1, 2])),
                    {"op": "idle", "obj": first["obj"], "d": r.choice([1, 2, 3])},  # waits outside any call while the other task finishes
                ] + [dict(o, pause=0) if o["op"] == "acall" else o for o in tail] + [dict(first, pause=r.choice([3, 4]))]
                for o in scn["ops"]:
                    o.pop("raise", None)
                    o.pop("nested", None)
                scn["actor2"] = [{"op": "new", "cls": cname, "obj": "ob"}, dict(first, obj="ob", pause=r.choice([2, 3])), dict(first, obj="ob", pause=1)]
                for o in scn["actor2"]:
                    o.pop("raise", None)
                    o.pop("nested", None)
    return scn


# -------------------------------------------------------------------------------------------------
# execution
# -------------------------------------------------------------------------------------------------
def _ticket(scn, op, i, tag="a"):
    tid = "%s%d" % (tag, i)
    kind = op["op"]
    if kind == "new":
        td = {"id": tid, "fn": "__init__", "op": "new", "cls": op["cls"], "obj": op["obj"]}
        if op.get("flags"):
            td["flags"] = op["flags"]
        if "content" in op:
            td["content"] = op["content"]
        if op.get("noargs"):
            td["noargs"] = True
        if op.get("ctor_raise"):
            td["body"] = {"fault": {"kind": "raise:FaultError", "at": op["ctor_raise"]}}
        return td
    if kind == "reinit":
        return {"id": tid, "fn": "__init__", "obj": op["obj"], "op": "reinit"}
    td = {"id": tid, "fn": op.get("member", "-"), "obj": op["obj"], "op": {"call": "call", "acall": "call", "get": "get", "set": "set", "del": "del", "setattr": "setattr", "delattr": "delattr", "repr": "repr"}.get(kind, kind)}
    if op.get("attr"):
        td["attr"] = op["attr"]
    body = {}
    if op.get("raise"):
        body["fault"] = {"kind": "raise:FaultError"}
    if op.get("nested"):
        body["nested"] = [{"id": "%s.n%d" % (tid, k), "fn": m, "obj": op["obj"], "op": "call"} for k, m in enumerate(op["nested"])]
    if op.get("pause") is not None:
        body["pause"] = [op["pause"]]
    if body:
        td["body"] = body
    return td


def _resolve_c03(run, scn):
    """Extend the world's resolver with the operation kinds of this property."""
    world = run.world
    orig = world.resolve

    def resolve(tx):
        td = tx.td
        op = td.get("op", "call")
        if op == "new":
            cls = world.classes[td["cls"]]
            cs = world.cspec[td["cls"]]
            shape = cs.get("shape", "plain")
            tx.info = {"kind": "ctor"}
            label = td["obj"]

            def thunk():
                if _root_shape(world, td["cls"]) == "listlike":
                    o = cls(list(range(td.get("content", 1))))
                elif shape == "namedtuple":
                    o = cls() if td.get("noargs") else cls(td.get("content", 1))
                elif shape == "dataclass" or not _spec_has_init(world, td["cls"]):
                    o = cls()
                else:
                    o = cls(tx.t)
                if run.label_of(o) is None:
                    run.register(o, label, td.get("flags"))
                return o

            return thunk, "%s.__init__" % td["cls"], label
        obj = world.objects.get(td["obj"])
        if obj is None:
            raise core.HarnessError("unknown object " + str(td["obj"]))
        cls = type(obj)
        fn = td["fn"]
        tx.info = {"kind": op}
        unit = world.defining_unit(cls, fn) if fn != "-" else "%s.%s" % (cls.__name__, op)
        if op == "reinit":
            return (lambda: obj.__init__(tx.t)), unit, td["obj"]
        if op == "call":
            if fn == "__len__":
                return (lambda: len(obj)), unit, td["obj"]
            if fn == "__str__":
                return (lambda: str(obj)), unit, td["obj"]
            if fn == "__call__":
                return (lambda: obj(tx.t)), unit, td["obj"]
            if fn == "__eq__":
                return (lambda: obj == 1), unit, td["obj"]
            if fn == "__lt__":
                return (lambda: obj < 1), unit, td["obj"]
            if fn == "__hash__":
                return (lambda: hash(obj)), unit, td["obj"]
            if fn == "__iter__":
                return (lambda: iter(obj)), unit, td["obj"]
            if fn == "__contains__":
                return (lambda: 1 in obj), unit, td["obj"]
            if fn == "__bool__":
                return (lambda: bool(obj)), unit, td["obj"]
            if fn == "__enter__":

                def with_():
                    with obj:
                        pass

                return with_, unit, td["obj"]
            if fn == "__getitem__":
                return (lambda: obj[0]) if not isinstance(obj, tuple) else (lambda: type(obj).__getitem__(obj, 0)), unit, td["obj"]
            return (lambda: getattr(obj, fn)(tx.t)), unit, td["obj"]
        if op == "get":
            return (lambda: getattr(obj, fn)), unit, td["obj"]
        if op == "set":
            return (lambda: setattr(obj, fn, 1)), unit, td["obj"]
        if op == "del":
            return (lambda: delattr(obj, fn)), unit, td["obj"]
        if op == "setattr":
            return (lambda: setattr(obj, td.get("attr", "x"), 2)), unit, td["obj"]
        if op == "delattr":

            def _del():
                object.__setattr__(obj, "zz_tmp", 1)  # (put there behind the library's back, then deleted the ordinary way)
                delattr(obj, "zz_tmp")

            return _del, unit, td["obj"]
        if op == "repr":
            return (lambda: repr(obj)), unit, td["obj"]
        return orig(tx)

    world.resolve = resolve
    world.is_async = lambda td: td.get("op") == "call" and td.get("fn", "").startswith("am")


def _forget(run, label, out):
    """Drop every reference the harness holds to a failed object, so that its address can be reused."""
    import gc

    o = run.world.objects.pop(label, None)
    if o is not None:
        run.side.pop(id(o), None)
        run.idmap.pop(id(o), None)
    e = out.get("exc_obj")
    if e is not None:
        e.__traceback__ = None
        out["exc_obj"] = None
    for x in run.injected + run.fired_excs:
        x.__traceback__ = None
    del o, e
    gc.collect()


def _execute(scn):
    run = core.Run({})
    for cs in scn["classes"]:
        build_class(run, cs)
    _resolve_c03(run, scn)
    ops = scn["ops"]

    def do_sync(i, op, tag="a"):
        if op["op"] == "poke":
            o = run.world.objects.get(op["obj"])
            if o is not None:
                o._poke(op["flags"])
                run.ev("poke", None, None, [op["obj"], sorted(op["flags"].items())])
            return
        if op["op"] != "new" and op["obj"] not in run.world.objects:
            return
        out = run.call(_ticket(scn, op, i, tag))
        if op["op"] == "new" and op.get("drop") and out["verdict"][0] != "ret":
            _forget(run, op["obj"], out)

    if scn.get("engine") == "sync":

        def go():
            run.enter_actor("a")
            for i, op in enumerate(ops):
                do_sync(i, op)

        contextvars.Context().run(go)
        return run, {}

    async def actor(name, tag, oplist):
        run.enter_actor(name)
        for i, op in enumerate(oplist):
            if op["op"] == "idle":
                await asyncio.sleep(op["d"])
                continue
            if op["op"] == "acall":
                if op["obj"] in run.world.objects:
                    await run.acall(_ticket(scn, op, i, tag))
            else:
                do_sync(i, op, tag)

    async def main():
        run.enter_actor("main")
        loop = asyncio.get_running_loop()
        if scn.get("shared_context"):
            run.actor_by_task = True
            # both tasks are given the very same Context object (marks are set and cleared in non-LIFO order in it)
            shared = contextvars.copy_context()
            c1 = c2 = shared
        else:
            c1, c2 = contextvars.copy_context(), contextvars.copy_context()
        t1 = loop.create_task(actor("a", "a", ops), name="a", context=c1)
        await asyncio.sleep(0)
        t2 = loop.create_task(actor("b", "b", scn.get("actor2") or []), name="b", context=c2)
        await asyncio.gather(t1, t2)

    _, vt = simloop.run_in_loop(main, contextvars.Context())
    return run, {"vtime": vt}


def judge(scn, run):
    violations = []
    shapes = set()
    specs = {c["name"]: c for c in scn["classes"]}
    flags = {}  # label -> current falsy flags as poked (model's view of object state)
    cls_of = {}
    ops_by_tid = {}
    for i, op in enumerate(scn["ops"]):
        ops_by_tid["a%d#0" % i] = op
    for i, op in enumerate(scn.get("actor2") or []):
        ops_by_tid["b%d#0" % i] = op
    # R3
    for xid, sid, olabel in run.inv_during_ctor:
        violations.append({"rule": "C03.R3", "classifier": "invariant-evaluated-during-construction", "detail": {"call": xid, "invariant": sid, "object": olabel}})
        break
    # nested public calls on an object that is in progress (made from a body of its own public method): no invariant at all
    for n, a, kind, sid, xid, detail in run.log:
        if kind == "inv" and xid is not None and ".n" in xid.split("#")[0]:
            violations.append({"rule": "C03.R1", "classifier": "invariant-evaluated-around-nested-call-on-object-in-progress", "detail": {"call": xid, "invariant": sid, "object": detail}})
            break
    # walk the log per top-level operation
    per = {}
    for n, a, kind, sid, xid, detail in run.log:
        if kind == "poke":
            per.setdefault("__order__", []).append(("poke", detail))
            continue
        if xid is None:
            continue
        top = xid
        per.setdefault(top, []).append((kind, sid, detail))
        if kind == "call" and xid in ops_by_tid:
            per.setdefault("__order__", []).append(("op", xid))
    state = {}  # label -> {sid: bool}
    for what, x in per.get("__order__", []):
        if what == "poke":
            label, items = x
            state.setdefault(label, {}).update(dict(items))
            continue
        xid = x
        op = ops_by_tid[xid]
        evs = per.get(xid, [])
        tx_out = run.outcomes.get(xid)
        if tx_out is None:
            continue
        v = tx_out["verdict"]
        label = op["obj"]
        if op["op"] == "new":
            cname = op["cls"]
            cls_of[label] = cname
            state[label] = dict(op.get("flags") or {})
            if op.get("content", 0) > 2:
                for x in hierarchy(scn, cname):
                    for i_, inv in enumerate(x.get("invs", ())):
                        if inv.get("content") in ("le2", "x_le2"):
                            state[label]["%s/inv%d" % (x["name"], i_)] = False
        else:
            cname = cls_of.get(label)
            if cname is None:
                continue
        exp = expected(scn, cname, op)
        # observed: invariant sites before the first body event and after the last body exit (of this op)
        before, after = set(), set()
        body_seen = False
        n_body = 0
        foreign = []
        for kind, sid, detail in evs:
            if kind in ("body", "ctor_body"):
                body_seen = True
                n_body += 1
            elif kind == "inv":
                if detail not in (label, "<unbuilt>"):
                    foreign.append((sid, detail))
                    continue
                (after if body_seen else before).add(sid)
        chain = hierarchy(scn, cname)
        shape = chain[-1].get("shape", "plain")
        mk = member_kind(scn, cname, op.get("member")) if op.get("member") else op["op"]
        al, oc, os_ = inv_sets(scn, cname)
        mix = ("C" if oc - os_ else "") + ("S" if os_ - oc else "") + ("A" if oc & os_ else "")
        if exp is None:
            continue
        eb, ea = exp
        falsy = {s for s, val in state.get(label, {}).items() if not val}
        if op["op"] == "new" and not core_has_ctor_body(scn, cname):
            # shapes without a Python constructor body: everything observed counts as "after"
            after |= before
            before = set()
        if op["op"] == "call" and mk == "gen":
            # calling a generator method only creates the generator: no body event; a site seen twice was evaluated before and after
            cnt = collections.Counter(sid for kind, sid, detail in evs if kind == "inv" and detail == label)
            before = set(cnt)
            after = {s for s, n_ in cnt.items() if n_ >= 2}
        if op["op"] in ("setattr", "delattr"):
            # plain assignment / deletion has no instrumented body: a site seen twice was evaluated before and after
            cnt = collections.Counter(sid for kind, sid, detail in evs if kind == "inv" and detail == label)
            before = set(cnt)
            after = {s for s, n_ in cnt.items() if n_ >= 2}
        nontrivial = bool(eb or ea)
        outcome = v[0] + (":" + str(v[1]) if v[0] != "ret" else "")
        if nontrivial:
            shapes.add(common.h64((shape, specs[cname].get("dbc", True), mk, mix, len(chain), outcome)))
        raised_fault = v[0] == "fault" or op.get("raise") or op.get("ctor_raise")
        if v[0] == "exc" and v[1] in ("TypeError", "AttributeError") and op["op"] == "new":
            violations.append({"rule": "C03.R1", "classifier": "constructor-fails:%s:%s:depth%d" % (v[1], shape, len(chain)), "detail": {"op": op, "verdict": v}})
            cls_of.pop(label, None)
            continue
        if op["op"] == "call" and v[0] == "exc" and not v[2] and not raised_fault and not (falsy & (eb | ea)):
            # nothing is wrong with the object and nothing was injected, yet calling the member fails (e.g. a wrapper put around a member
            # that must not have one - static and class methods - cannot find ``self``)
            violations.append({"rule": "C03.R1", "classifier": "call-fails:%s:%s" % (mk, v[1]), "detail": {"op": op, "class": cname, "verdict": v}})
        elif not (falsy & (eb | ea)):
            # all relevant invariants true: R1
            if before != eb:
                violations.append(
                    {
                        "rule": "C03.R1",
                        "classifier": "before:%s:%s:%s:%s" % (op["op"], mk, "missing" if eb - before else "unexpected", _which(eb ^ before, oc, os_)),
                        "detail": {"op": op, "class": cname, "expected_before": sorted(eb), "observed_before": sorted(before), "verdict": v},
                    }
                )
            elif not raised_fault and v[0] == "ret" and after != ea:
                violations.append(
                    {
                        "rule": "C03.R1",
                        "classifier": "after:%s:%s:%s:%s" % (op["op"], mk, "missing" if ea - after else "unexpected", _which(ea ^ after, oc, os_)),
                        "detail": {"op": op, "class": cname, "expected_after": sorted(ea), "observed_after": sorted(after), "verdict": v},
                    }
                )
            elif v[0] == "exc" and v[2] and "/inv" in str(v[2]):
                violations.append(
                    {"rule": "C03.R2", "classifier": "spurious-violation:%s:%s" % (op["op"], mk), "detail": {"op": op, "class": cname, "verdict": v, "model_state": state.get(label)}}
                )
        else:
            # R2: a falsy invariant in the expected set
            if falsy & eb:
                ok = v[0] == "exc" and v[2] in (falsy & eb)
                if not ok:
                    violations.append({"rule": "C03.R2", "classifier": "falsy-before-not-reported:%s:%s" % (op["op"], mk), "detail": {"op": op, "class": cname, "falsy": sorted(falsy & eb), "verdict": v}})
                elif n_body:
                    violations.append({"rule": "C03.R2", "classifier": "body-ran-after-failing-before:%s:%s" % (op["op"], mk), "detail": {"op": op, "class": cname, "verdict": v}})
            elif falsy & ea and not raised_fault:
                ok = v[0] == "exc" and v[2] in (falsy & ea)
                if not ok:
                    violations.append({"rule": "C03.R2", "classifier": "falsy-after-not-reported:%s:%s" % (op["op"], mk), "detail": {"op": op, "class": cname, "falsy": sorted(falsy & ea), "verdict": v}})
        if op["op"] == "new" and v[0] != "ret" and not (op.get("ctor_raise") and not op.get("drop")):
            cls_of.pop(label, None)
    return violations, shapes


def _which(sids, oc, os_):
    s = set(sids)
    if s & oc and s & os_:
        return "call+setattr"
    if s & oc:
        return "call"
    if s & os_:
        return "setattr"
    return "other"


def core_has_ctor_body(scn, cname):
    return any(c.get("init") is not None or c.get("shape") == "dataclass" for c in hierarchy(scn, cname))


def execute(scn):
    try:
        run, st = _execute(scn)
    except core.Abort as a:
        return {"violations": [{"rule": "C03.R1", "classifier": "cap-%s" % a, "detail": "run hit a cap"}], "digest": None, "stats": {}}
    violations, shapes = judge(scn, run)
    seen = set()
    uniq = []
    for v in violations:
        c = (v["rule"], v["classifier"])
        if c not in seen:
            seen.add(c)
            uniq.append(v)
    stats = dict(st)
    stats["events"] = len(run.log)
    stats["state_sigs"] = [common.h64(x) for x in run.states]
    stats["faults"] = dict(run.faults_fired)
    stats["switch_sig"] = common.h64(common.switch_signature(run.log))
    return {"violations": uniq, "digest": run.digest(), "nontrivial": shapes, "stats": stats}
