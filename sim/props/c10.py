"""C10 - contracts calling contracted code terminate; only own re-entry goes unchecked.

Oracle: a small *suspension model* written from the property statement and fed with the observed
shadow stack of the calling actor (frames pushed/popped by the instrumented application itself):

  * a call of unit u must have its pre/postconditions/snapshots evaluated unless the caller's stack
    holds a ``ceval(u)`` frame (a condition/capture/error factory of u's own checker is running);
  * a public-method call on object o must have o's invariants evaluated unless the caller's stack
    holds ``ctor(o)``, ``body(., o)`` of a wrapped public member, or ``inv(o)``;
  * frames of other actors never count.

Rules: C10.R1 termination (no cap hit, no RecursionError), C10.R2 checked == must-be-checked,
C10.R3 an unchecked call still runs its body exactly once and returns its result.
"""
import asyncio
import contextvars

import core
import gen
import simloop
import threadsim
from props import common

ID = "C10"
LEVEL = "exploration"
RULE_TEXT = (
    "seeded worlds of 2-5 contracted units (functions, methods of 1-2 objects with invariants, constructors) whose conditions, captures, "
    "invariants and bodies make nested calls described by ticket trees (depth <= 3, fan-out <= 3, SELF references = re-entry any number of "
    "times); sync on the main actor or async on SimLoop with 1-2 extra tasks running their own trees over the same units. non-trivial = a run "
    "in which at least one call was made while the caller's shadow stack already held a frame of the callee's unit or object; distinct = "
    "distinct (caller frame kind, callee relation, expected checked?, re-entry count bucket, engine) shapes"
)
ASSUMPTIONS = [
    "which calls happen and from where is observed (shadow stack pushed by the generated application), not predicted",
    "whether a unit has contracts at all is read from the real checker's introspection lists (not the property under test)",
]
RUNS = {"quick": 20000, "thorough": 500000}
BUDGET_S = {"quick": 60, "thorough": 900}
CHUNK = 250


def generate(r, tier):
    engine = r.choice(["sync", "sync", "loop", "loop", "threads"])
    is_async = engine == "loop"
    world = gen.gen_world(r, is_async, nfuncs=(1, 3), with_class=0.7, forms=r.random() < 0.3, async_methods=is_async and r.random() < 0.5, mixed=True, subclass=0.4)
    if len(world["funcs"]) > 1 and r.random() < 0.3:
        for f_ in world["funcs"]:
            f_["qualname"] = "make_handler.<locals>.handler"  # the functions come out of one factory: same module, same qualified name
    units = gen.units_of(world)
    profile = {
        "p_falsy": r.choice([0.0, 0.2, 0.4]),
        "pause_density": r.choice([0.0, 0.4, 0.8]),
        "p_nested": r.choice([0.5, 0.7, 0.9]),
        "p_self": r.choice([0.3, 0.6]),
        "max_depth": r.choice([1, 2, 3]),
        "max_fanout": r.choice([1, 2, 3]),
        "p_fault": r.choice([0.0, 0.0, 0.2]),
        "fault_kinds": ["raise", "cancel"] if engine == "loop" else ["raise"],
    }
    scn = {"property": ID, "engine": engine, "world": world, "actors": []}
    if engine == "loop" and r.random() < 0.25:
        scn["shared_context"] = True  # all tasks are given the very same Context object
    if engine == "loop" and r.random() < 0.5:
        scn["history"] = [gen.gen_ticket(r, "h.%d" % i, units, dict(profile, p_nested=0.0)) for i in range(r.randint(1, 2))]
    nact = 1 if engine == "sync" else (r.randint(1, 3) if engine == "loop" else 2)
    if engine == "threads":
        scn["history"] = [gen.gen_ticket(r, "h.%d" % i, units, dict(profile, p_nested=0.0)) for i in range(r.randint(0, 1))]
        scn["line_level"] = r.random() < 0.3
        n = 300 if scn["line_level"] else 60
        p = 0.03 if scn["line_level"] else r.choice([0.3, 0.6])
        scn["choices"] = [(r.randint(1, 2) if r.random() < p else 0) for _ in range(n)]
        scn["ctx"] = [r.choice(["fresh", "copied"]) for _ in range(2)]
    for i in range(nact):
        name = "a%d" % i
        script = []
        for j in range(r.randint(1, 3)):
            tid = "%s.%d" % (name, j)
            if world["classes"] and r.random() < 0.2:
                # a constructor that calls public methods of the object under construction
                cs = world["classes"][0]
                label = "n_%s_%d" % (name, j)
                td = {"id": tid, "fn": "__init__", "op": "new", "cls": cs["name"], "obj": label}
                meths = [m for m in cs["methods"] if not m.get("async")]
                if meths and r.random() < 0.8:
                    m = r.choice(meths)
                    u = {"fn": m["name"], "obj": label, "owner": "%s.%s" % (cs["name"], m["name"]), "spec": m, "async": False,
                         "invs": ["%s/inv%d" % (cs["name"], k) for k in range(len(cs.get("invs", ())))]}
                    sync_units = [x for x in units if not x["async"]] + [u]
                    td["body"] = {"nested": [gen.gen_ticket(r, tid + ".c%d" % k, sync_units, profile, depth=1, u=u if k == 0 else None) for k in range(r.randint(1, 2))]}
                script.append(td)
            else:
                td = gen.gen_ticket(r, tid, units, profile)
                ocls = {o["name"]: o["cls"] for o in world.get("objects", ())}
                uu = [x for x in units if x["fn"] == td.get("fn") and x["obj"] == td.get("obj")]
                if td.get("obj") in ocls and uu and uu[0]["invs"] and not uu[0]["async"] and r.random() < 0.2:
                    # an invariant that constructs ANOTHER instance of the class (``self == Vector(self.x, self.y)``): the new
                    # object's constructor is a call on another object and is fully checked
                    isid = r.choice(uu[0]["invs"])
                    td.setdefault("sites", {}).setdefault(isid, {}).setdefault("nested", []).append(
                        {"id": tid + ".nw", "fn": "__init__", "op": "new", "cls": ocls[td["obj"]], "obj": "nw_%s_%d" % (name, j)}
                    )
                script.append(td)
        scn["actors"].append({"name": name, "script": script})
    if scn.get("shared_context"):
        scn["after"] = [gen.gen_ticket(r, "z.%d" % i, units, dict(profile, p_nested=0.0, p_fault=0.0)) for i in range(r.randint(1, 3))]
    return scn


def _execute(scn):
    run = core.Run(scn["world"])
    common.setup_objects(run, scn["world"])
    actors = scn.get("actors") or []
    if scn.get("engine") == "sync":

        def go():
            for a in actors:
                run.enter_actor(a["name"])
                for td in a.get("script") or []:
                    run.call(td)

        contextvars.Context().run(go)
        return run, {}

    if scn.get("engine") == "threads":
        ctx_main = contextvars.Context()

        def hist():
            run.enter_actor("main")
            for td in scn.get("history") or []:
                run.call(td)

        ctx_main.run(hist)
        sim = threadsim.ThreadSim(run, scn.get("choices") or [], line_level=bool(scn.get("line_level")))
        run.yield_hook = sim.yield_point
        plan = []
        for i, a in enumerate(actors):
            mode = (scn.get("ctx") or ["fresh", "fresh"])[i % 2]
            ctx = contextvars.Context() if mode == "fresh" else ctx_main.run(contextvars.copy_context)

            def fn(a=a):
                for td in a.get("script") or []:
                    run.call(td)

            plan.append((a["name"], ctx, fn))
        sim.run_all(plan)
        return run, {"handoffs": sim.handoffs}

    async def child(a):
        run.enter_actor(a["name"])
        for td in a.get("script") or []:
            if run.world.is_async(td):
                await run.acall(td)
            else:
                run.call(td)

    async def main():
        run.enter_actor("main")
        loop = asyncio.get_running_loop()
        for td in scn.get("history") or []:
            # the spawning context has already executed contracted code ("in the current thread/task" must still hold)
            if run.world.is_async(td):
                await run.acall(td)
            else:
                run.call(td)
        if scn.get("shared_context"):
            run.actor_by_task = True
            shared = contextvars.copy_context()
            tasks = [loop.create_task(child(a), name=a["name"], context=shared) for a in actors]
        else:
            tasks = [loop.create_task(child(a), name=a["name"], context=contextvars.copy_context()) for a in actors]
        await asyncio.gather(*tasks)
        if scn.get("shared_context") and scn.get("after"):
            # once every task has finished, nothing is in progress in the shared context any more: calls made in it are checked
            async def after():
                run.enter_actor("z")
                for td in scn["after"]:
                    if run.world.is_async(td):
                        await run.acall(td)
                    else:
                        run.call(td)

            await loop.create_task(after(), name="z", context=shared)

    _, vt = simloop.run_in_loop(main, contextvars.Context())
    return run, {"vtime": vt}


def _relation(tx):
    """How the callee relates to the caller's shadow stack."""
    rel = []
    u, o = tx.unit, tx.obj
    for kind, fu, fo, sid in tx.stack_at_call:
        if kind == "ceval" and fu == u:
            rel.append("ceval-same-unit")
        elif kind in ("body", "ctor") and fu == u:
            rel.append("body-same-unit")
        if o is not None and fo == o and kind in ("call", "body", "ctor", "inv"):
            # a public member / constructor of o is in progress (its whole wrapped call, including the
            # evaluation of its own contracts), or an invariant of o is being evaluated
            rel.append(kind + "-same-obj")
    return rel


def _declared_call_invs(spec, cname):
    cs = {c["name"]: c for c in spec.get("classes", ())}
    if cname not in cs:
        return None
    out = set()
    while cname:
        c = cs[cname]
        out |= {"%s/inv%d" % (cname, i) for i, inv in enumerate(c.get("invs", ())) if inv.get("check_on", "CALL") in ("CALL", "ALL")}
        cname = c.get("base")
    return out


def judge(run, engine, only_actor=None):
    violations = []
    shapes = set()
    reentrant_calls = 0
    for tx in run.txs:
        if tx.outcome is None or tx.outcome["actor"] == "setup":
            continue
        if only_actor is not None and tx.outcome["actor"] != only_actor:
            # tasks that were deliberately given ONE Context see each other's marks by construction; only what happens in
            # that context after all of them have finished is judged
            continue
        rel = _relation(tx)
        info = tx.info or {}
        v = tx.outcome["verdict"]
        if v[0] == "exc" and v[1] == "RecursionError":
            violations.append({"rule": "C10.R1", "classifier": "%s:RecursionError" % engine, "detail": {"call": tx.xid, "unit": tx.unit}})
        body_returned = any(e[2] == "body_exit" and e[4] == tx.xid for e in run.log) if (info.get("has_post") and not info.get("has_pre")) else None
        # -- function-level contracts
        must = "ceval-same-unit" not in rel
        has = info.get("has_pre") or (info.get("has_post") and body_returned)
        observed = bool(tx.kinds & {"pre", "post", "snap", "err"})
        if rel:
            reentrant_calls += 1
            n_re = sum(1 for x in run.txs if x.td is tx.td and x.top is tx.top)
            shapes.add((tuple(sorted(set(rel))), must, info.get("kind"), min(n_re, 3), engine))
        if v[0] == "exc" and v[1] == "TypeError" and tx.td.get("kw"):
            continue  # the call itself was rejected (reserved keyword argument): nothing to check, nothing to run
        if v[0] == "fault" and tx.bodies == 0 and not (tx.kinds & {"pre", "post", "snap", "err"}):
            continue  # an injected fault ended the call before its contracts could be reached (e.g. inside an invariant)
        inv_failed_first = v[0] in ("exc", "fault") and v[2] is not None and "/inv" in v[2] and tx.bodies == 0
        if must and has and not observed and not inv_failed_first:
            where = "callee-in-own-body" if "body-same-unit" in rel else ("plain" if not rel else "+".join(sorted(set(rel))))
            violations.append(
                {
                    "rule": "C10.R2",
                    "classifier": "%s:contracts-skipped:%s:%s" % (engine, info.get("kind"), where),
                    "detail": {"call": tx.xid, "unit": tx.unit, "obj": tx.obj, "caller_stack": [list(f) for f in tx.stack_at_call], "verdict": v},
                }
            )
        if not must and observed:
            violations.append(
                {
                    "rule": "C10.R2",
                    "classifier": "%s:contracts-evaluated-on-own-reentry:%s" % (engine, info.get("kind")),
                    "detail": {"call": tx.xid, "unit": tx.unit, "caller_stack": [list(f) for f in tx.stack_at_call], "verdict": v},
                }
            )
        # -- invariants around public method calls
        if info.get("kind") == "method" and info.get("has_call_inv"):
            must_i = not any(x.endswith("-same-obj") for x in rel)
            obs_i = "inv" in tx.kinds or "inverr" in tx.kinds
            if must_i and not obs_i and must:
                # (if the function-level re-entry short-cut applies the invariant wrapper is still outermost, so ``must`` is irrelevant
                #  for the library; we only skip the comparison when the statement leaves it open)
                violations.append(
                    {
                        "rule": "C10.R2",
                        "classifier": "%s:invariants-skipped:%s" % (engine, "plain" if not rel else "+".join(sorted(set(rel)))),
                        "detail": {"call": tx.xid, "unit": tx.unit, "obj": tx.obj, "caller_stack": [list(f) for f in tx.stack_at_call], "verdict": v},
                    }
                )
            if not must_i and obs_i:
                violations.append(
                    {
                        "rule": "C10.R2",
                        "classifier": "%s:invariants-evaluated-on-own-reentry" % engine,
                        "detail": {"call": tx.xid, "unit": tx.unit, "obj": tx.obj, "caller_stack": [list(f) for f in tx.stack_at_call], "verdict": v},
                    }
                )
            if must_i and obs_i and v[0] == "ret" and tx.obj is not None:
                # a checked call that returned has had every on-call invariant of the object's own class evaluated - no more, no fewer
                # (the list belongs to the class of the instance, not to the class that happens to define the method)
                o = run.world.objects.get(tx.obj)
                if o is not None:
                    cname = next((n for n, k in run.world.classes.items() if k is type(o)), None)
                    declared = _declared_call_invs(run.world.spec, cname)
                    seen_i = {e[3] for e in run.log if e[2] == "inv" and e[4] == tx.xid and e[5] == tx.obj}
                    if declared is not None and seen_i != declared:
                        violations.append(
                            {
                                "rule": "C10.R2",
                                "classifier": "%s:invariants-of-another-class:%s" % (engine, "missing" if declared - seen_i else "foreign"),
                                "detail": {"call": tx.xid, "unit": tx.unit, "obj": tx.obj, "class": cname, "declared": sorted(declared), "evaluated": sorted(seen_i)},
                            }
                        )
        # -- invariants after the constructor of an object that is not already in progress
        if info.get("kind") == "ctor" and info.get("has_inv") and v[0] == "ret" and not any(x.endswith("-same-obj") for x in rel):
            if "inv" not in tx.kinds and "inverr" not in tx.kinds:
                violations.append(
                    {
                        "rule": "C10.R2",
                        "classifier": "%s:invariants-skipped:ctor:%s" % (engine, "from-invariant" if any(f[0] == "inv" for f in tx.stack_at_call) else "plain"),
                        "detail": {"call": tx.xid, "unit": tx.unit, "obj": tx.obj, "caller_stack": [list(f) for f in tx.stack_at_call], "verdict": v},
                    }
                )
        # -- R3: an unchecked call still runs its body once and hands its result back
        if not must and not observed and v[0] == "ret":
            if tx.bodies != 1 or v[1] not in ("own", "none"):
                violations.append({"rule": "C10.R3", "classifier": "%s:unchecked-call-body-%d-%s" % (engine, tx.bodies, v[1]), "detail": {"call": tx.xid, "unit": tx.unit}})
        if not must and not observed and v[0] == "exc" and tx.bodies == 0 and not v[2]:
            violations.append({"rule": "C10.R3", "classifier": "%s:unchecked-call-did-not-run-body:%s" % (engine, v[1]), "detail": {"call": tx.xid, "unit": tx.unit, "verdict": v}})
    return violations, shapes, reentrant_calls


def execute(scn):
    engine = scn.get("engine", "sync")
    try:
        run, st = _execute(scn)
    except core.Abort as a:
        return {
            "violations": [{"rule": "C10.R1", "classifier": "%s:nontermination-cap-%s" % (engine, a), "detail": "the run hit the %s cap: unbounded re-entry" % a}],
            "digest": None,
            "stats": {},
        }
    violations, shapes, nre = judge(run, engine, "z" if scn.get("shared_context") else None)
    seen = set()
    uniq = []
    for v in violations:
        c = (v["rule"], v["classifier"])
        if c not in seen:
            seen.add(c)
            uniq.append(v)
    stats = dict(st)
    stats["events"] = len(run.log)
    stats["state_sigs"] = [common.h64(x) for x in run.states]
    stats["calls"] = len(run.txs)
    stats["reentrant_calls"] = nre
    stats["switch_sig"] = common.h64(common.switch_signature(run.log))
    return {"violations": uniq, "digest": run.digest(), "nontrivial": {common.h64(s) for s in shapes}, "stats": stats, "engine": engine}
