"""C17 - defining a class or decorating a function never changes another's contracts.

A seeded *definition history* (class definitions on the contract-inheriting base in any order - children,
siblings, grandchildren, second bases, re-exported base functions, invariants with any check_on at any level -
function decorations, definitions that fail half-way, contracts appended through the documented helpers) is
executed step by step on one live world.  After every step every earlier definition is observed:
  C17.R1  its verdict vector (one probe per known contract falsified on its own, on a fresh instance) equals
          the vector stored when it was defined (contracts that did not exist then must not be able to fail it)
  C17.R2  the same after a definition that is rejected
"""
import history

ID = "C17"
LEVEL = "exploration"
RULE_TEXT = (
    "seeded definition histories of 4-13 steps (class with 0-2 bases among earlier classes, 1-3 members of kinds method/static/class/property "
    "with 0-2 pre / 0-2 post / snapshots, 0-2 invariants with check_on CALL/SETATTR/ALL, optional constructor, re-exported base functions; "
    "function decorations; failing definitions: weakening without base precondition, duplicate snapshot name, snapshot without postcondition; "
    "appends through add_*_to_checker). after each step earlier definitions are re-observed (structural fingerprint of all contract lists, "
    "verdict vectors for those whose lists changed, the new class's bases, a rotating one, and all at the end). non-trivial/distinct = distinct "
    "(step kind, relation of the new definition to the observed one, lists changed?, verdicts changed?) observations"
)
ASSUMPTIONS = [
    "only hierarchies on the contract-inheriting base (DBC) are generated, as the property states",
    "a change of list contents that changes no single-falsified-contract verdict (e.g. a duplicated entry) is counted as a probe, not as a violation",
]
STATE_MEASURE = "definition states: shape of the class hierarchy after each step of a history (bases by position, member kinds and contract roles, invariant events, constructor, metaclass form, late decorations); the key keeps the generic name"
RUNS = {"quick": 6000, "thorough": 90000}
BUDGET_S = {"quick": 70, "thorough": 1200}
CHUNK = 25


def generate(r, tier):
    return history.generate(r, tier, ID)


def execute(scn):
    return history.execute(scn, ID)
