"""C18 - introspection data tells integrators the truth.

Runs on the definition machine (see C17):
  C18.R1  every class successfully created through DBCMeta is announced exactly once to the registration hook
          (icontract._metaclass._register_for_hypothesis, replaced by a recorder), at creation, as the class
          object itself; failed definitions, function decorations, later invariant decoration and instance use
          announce nothing
  C18.R2  evaluating the introspected lists by hand (find_checker; precondition groups in order, conjunctive
          inside; captures into OLD; postconditions in order; class invariants) gives the same verdict as the
          real call, for every probe of every member of every live class, along the whole history
  C18.R3  a contract appended through add_precondition_to_checker / add_postcondition_to_checker is live at the
          next call (the wrapper reads the lists at call time)
"""
import history

ID = "C18"
LEVEL = "exploration"
RULE_TEXT = (
    "same seeded definition histories as C17; the registration hook is a recorder for the whole history; for every probe call of every member "
    "(functions, methods, static/class methods, property getters; own, inherited and merged contract lists) the verdict obtained by evaluating "
    "the introspected lists by hand is compared with the verdict of the real call. non-trivial/distinct = distinct (step kind, relation, manual "
    "verdict kind) observations with at least one non-empty list"
)
ASSUMPTIONS = [
    "hand evaluation follows tests/test_for_integrators.py: groups tried in order until one holds, conjunctive inside, captures only if postconditions exist, invariants selected for calls first",
]
STATE_MEASURE = "definition states: shape of the class hierarchy after each step of a history (bases by position, member kinds and contract roles, invariant events, constructor, metaclass form, late decorations); the key keeps the generic name"
RUNS = {"quick": 6000, "thorough": 90000}
BUDGET_S = {"quick": 70, "thorough": 1200}
CHUNK = 25


def generate(r, tier):
    return history.generate(r, tier, ID)


def execute(scn):
    return history.execute(scn, ID)
