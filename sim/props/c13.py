"""C13 - async callables get the same contract semantics as sync ones.

The same generated program is rendered twice - every unit as ``def`` and as ``async def`` (conditions and
captures of the async rendering in sync / ``async def`` / coroutine-returning-lambda styles) - and driven by
the same tickets.  The async rendering runs on SimLoop with seeded pauses inside async conditions, captures
and bodies and with a noise task that runs its own contracted calls on the same units in between.

  C13.R1  per call, the sequence of condition/capture/error-factory/invariant/body events and the outcome
          are equal between the two renderings
  C13.R2  no awaitable produced by a condition/capture of an async callable is left un-awaited
  C13.R3  a coroutine-function (or coroutine-returning) condition/capture on a *sync* callable is rejected
          with ValueError when reached; it is never taken as truthy (the body is not entered for
          preconditions/captures, the result is not returned for postconditions)
"""
import asyncio
import contextvars
import copy
import gc
import warnings

import core
import gen
import simloop
from props import common

ID = "C13"
LEVEL = "exploration"
RULE_TEXT = (
    "seeded programs (1-3 functions, optional class with 1-2 methods, 0-2 invariants and 1-2 objects; stacks of 0-3 pre, 0-2 post, 0-2 "
    "snapshots; all four error forms) rendered as def and as async def; 2-5 tickets (falsy contracts, nested/re-entrant calls, state-mutating "
    "bodies, injected exceptions / failing __bool__ / failing __repr__) drive both renderings; the async one runs under SimLoop with pauses and a "
    "noise task. plus placements of async conditions/captures on sync callables. non-trivial = the async rendering suspended at least once "
    "inside a checked call or a misplaced async contract was reached; distinct = distinct (unit kind, contract roles present, styles present, "
    "outcome class, suspended) tuples"
)
ASSUMPTIONS = [
    "the noise task does not mutate shared object state; the compared actor's own mutations happen identically in both renderings",
    "event equality is over hand-over events (call, pre, snap, body, post, err, inv, return), not over awaits",
]
RUNS = {"quick": 16000, "thorough": 400000}
BUDGET_S = {"quick": 60, "thorough": 900}
CHUNK = 250
KEEP = ("call", "pre", "snap", "body", "body_exit", "post", "old", "err", "inv", "inverr", "return", "repr")


def _strip_async(world):
    w = copy.deepcopy(world)

    def fix(u):
        u.pop("async", None)
        u.pop("offload", None)
        for role in ("pre", "post", "snaps"):
            for c in u.get(role) or ():
                c.pop("style", None)

    for f in w.get("funcs", ()):
        fix(f)
    for c in w.get("classes", ()):
        for m in c.get("methods", ()):
            fix(m)
    return w


def _strip_pauses(td):
    t = copy.deepcopy(td)

    def go(x):
        for s in (x.get("sites") or {}).values():
            s.pop("pause", None)
            for n in s.get("nested") or ():
                if isinstance(n, dict) and "id" in n:
                    go(n)
        b = x.get("body")
        if b:
            b.pop("pause", None)
            for n in b.get("nested") or ():
                if isinstance(n, dict) and "id" in n:
                    go(n)
        for k in [k for k, s in (x.get("sites") or {}).items() if not s]:
            del x["sites"][k]

    go(t)
    return t


def generate(r, tier):
    if r.random() < 0.12:
        return _gen_placement(r)
    aworld = gen.gen_world(r, True, nfuncs=(1, 3), with_class=0.6, forms=True, async_methods=True, mixed=False, subclass=0.35, setattr_invs=True)
    for u_ in aworld.get("funcs", ()):
        if u_.get("async") and not u_.get("kwargs") and r.random() < 0.2:
            u_["offload"] = True  # the async callable is an ``async def`` layer over a plain function
    units = gen.units_of(aworld)
    profile = {
        "p_falsy": r.choice([0.3, 0.5, 0.7]),
        "pause_density": r.choice([0.3, 0.6, 0.9]),
        "p_nested": r.choice([0.0, 0.2, 0.4]),
        "p_self": 0.4,
        "max_depth": 2,
        "max_fanout": 2,
        "p_fault": r.choice([0.0, 0.2, 0.4]),
        "fault_kinds": ["raise", "bool", "repr"],
        "p_mutate": 0.25,
        "p_badcall": 0.08,
    }
    atickets = [gen.gen_ticket(r, "a.%d" % i, units, profile) for i in range(r.randint(2, 5))]
    noise = [gen.gen_ticket(r, "z.%d" % i, units, dict(profile, p_mutate=0.0, p_fault=0.0)) for i in range(r.randint(0, 3))]
    for td_ in atickets:
        if r.random() < 0.08:
            td_.setdefault("body", {})["returns"] = "handle"  # the callable returns an awaitable as its value
    off = {u_["name"] for u_ in aworld.get("funcs", ()) if u_.get("offload")}
    if off:
        # the plain function under the async layer cannot await: its body makes no nested calls
        def prune(td):
            if td.get("fn") in off and not td.get("obj") and td.get("body"):
                td["body"].pop("nested", None)
            for sc in (td.get("sites") or {}).values():
                for n_ in sc.get("nested") or ():
                    if isinstance(n_, dict) and "id" in n_:
                        prune(n_)
            for n_ in (td.get("body") or {}).get("nested") or ():
                if isinstance(n_, dict) and "id" in n_:
                    prune(n_)

        for td_ in atickets + noise:
            prune(td_)
    return {
        "property": ID,
        "mode": "pair",
        "aworld": aworld,
        "world": _strip_async(aworld),
        "atickets": atickets,
        "tickets": [_strip_pauses(t) for t in atickets],
        "noise": noise,
    }


def _gen_placement_hierarchy(r):
    """A sync method that overrides a base method whose precondition is an async condition: the inherited (earlier)
    group holds the misplaced contract, the override's own (later) group is satisfied."""
    style = r.choice(["async", "corolambda"])
    w = {
        "funcs": [],
        "classes": [
            {"name": "K0", "init": {"super": "first"}, "methods": [{"name": "m0", "kind": "method", "pre": [{"style": style}], "post": []}], "invs": []},
            {"name": "K1", "base": "K0", "methods": [{"name": "m0", "kind": "method", "pre": [{} for _ in range(r.randint(1, 2))], "post": [{}] if r.random() < 0.5 else []}], "invs": []},
        ],
        "objects": [{"name": "o9", "cls": "K1"}],
    }
    return {"property": ID, "mode": "placement", "world": w, "ticket": {"id": "pl", "fn": "m0", "obj": "o9"}, "site": "K0.m0/pre0", "role": "pre", "style": style}


def _gen_placement(r):
    if r.random() < 0.3:
        return _gen_placement_hierarchy(r)
    w = gen.gen_world(r, False, nfuncs=(1, 2), with_class=0.4, forms=False)
    for o in w.get("objects", ()):
        o.pop("flags", None)
    units = [u for u in gen.units_of(w)]
    cands = []
    for u in units:
        for sid, kind, c in gen.site_ids(u):
            cands.append((u, sid, kind, c))
    if not cands:
        w["funcs"][0]["pre"] = [{}]
        u = gen.units_of(w)[0]
        cands = [(u, "%s/pre0" % u["owner"], "pre", w["funcs"][0]["pre"][0])]
    u, sid, kind, c = r.choice(cands)
    c["style"] = r.choice(["async", "corolambda", "marked", "awaitable"])
    td = {"id": "pl", "fn": u["fn"]}
    if u["obj"] is not None:
        td["obj"] = u["obj"]
    return {"property": ID, "mode": "placement", "world": w, "ticket": td, "site": sid, "role": kind, "style": c["style"]}


def _trace(run, actor):
    return [(k, sid, xid, json_safe(d)) for (n, a, k, sid, xid, d) in run.log if a == actor and k in KEEP]


def json_safe(d):
    if isinstance(d, (list, tuple)):
        return [json_safe(x) for x in d]
    return d


def _run_sync(world, tickets):
    run = core.Run(world)
    common.setup_objects(run, world)

    def go():
        run.enter_actor("a")
        for td in tickets:
            run.call(td)

    contextvars.Context().run(go)
    return run


def _run_async(world, tickets, noise):
    run = core.Run(world)
    common.setup_objects(run, world)

    async def child(name, tds):
        run.enter_actor(name)
        for td in tds:
            if run.world.is_async(td):
                await run.acall(td)
            else:
                run.call(td)

    async def main():
        run.enter_actor("main")
        loop = asyncio.get_running_loop()
        ts = [loop.create_task(child("a", tickets), name="a", context=contextvars.copy_context())]
        if noise:
            ts.append(loop.create_task(child("noise", noise), name="noise", context=contextvars.copy_context()))
        await asyncio.gather(*ts)

    with warnings.catch_warnings():
        warnings.simplefilter("ignore")
        gc.collect()  # flush garbage (e.g. coroutines of earlier runs) so that it cannot be attributed to this run
    with warnings.catch_warnings(record=True) as wl:
        warnings.simplefilter("always")
        _, vt = simloop.run_in_loop(main, contextvars.Context())
        gc.collect()
    never = [str(w.message) for w in wl if "never awaited" in str(w.message)]
    return run, vt, never


def _roles(world):
    roles = set()
    styles = set()
    for u in gen.units_of(world):
        for sid, kind, c in gen.site_ids(u):
            roles.add(kind)
            styles.add(c.get("style", "sync"))
        if u["invs"]:
            roles.add("inv")
    return tuple(sorted(roles)), tuple(sorted(styles))


def execute(scn):
    if scn.get("mode") == "placement":
        return _execute_placement(scn)
    # the sync rendering is always derived from the async one (a stored or shrunk scenario cannot hold an inconsistent pair)
    scn = dict(scn, world=_strip_async(scn["aworld"]), tickets=[_strip_pauses(t) for t in scn["atickets"]])
    try:
        srun = _run_sync(scn["world"], scn["tickets"])
    except core.Abort:
        return {"violations": [], "skipped": "sync rendering hit a cap", "stats": {}, "digest": None}
    try:
        arun, vt, never = _run_async(scn["aworld"], scn["atickets"], scn.get("noise") or [])
    except core.Abort as a:
        return {"violations": [{"rule": "C13.R1", "classifier": "async-rendering-hit-cap-%s" % a, "detail": "only the async rendering ran into a cap"}], "stats": {}, "digest": None}
    violations = []
    st = _trace(srun, "a")
    at = _trace(arun, "a")
    if st != at:
        i = 0
        while i < min(len(st), len(at)) and st[i] == at[i]:
            i += 1
        se = st[i] if i < len(st) else None
        ae = at[i] if i < len(at) else None
        violations.append(
            {
                "rule": "C13.R1",
                "classifier": "trace:%s-vs-%s" % (se[0] if se else "end", ae[0] if ae else "end"),
                "detail": {"first_difference_at": i, "sync": se, "async": ae, "sync_prev": st[max(0, i - 3):i]},
            }
        )
    if never:
        violations.append({"rule": "C13.R2", "classifier": "never-awaited", "detail": never[:3]})
    suspended = arun.suspensions > 0
    roles, styles = _roles(scn["aworld"])
    shapes = set()
    for k in arun.order:
        o = arun.outcomes[k]
        if o["actor"] != "a":
            continue
        shapes.add(common.h64(("method" if o["obj"] else "func", roles, styles, o["verdict"][0], o["verdict"][1], suspended)))
    stats = {"state_sigs": [common.h64(x) for x in arun.states], "events": len(srun.log) + len(arun.log), "vtime": vt, "suspensions": arun.suspensions, "faults": dict(arun.faults_fired), "switch_sig": common.h64(common.switch_signature(arun.log))}
    return {"violations": violations, "digest": arun.digest() + srun.digest(), "nontrivial": shapes if suspended else set(), "stats": stats}


def _execute_placement(scn):
    present = {sid: c for u in gen.units_of(scn["world"]) for sid, kind, c in gen.site_ids(u)}
    if scn["site"] not in present or present[scn["site"]].get("style") != scn["style"]:
        # (a shrunk scenario that lost the misplaced contract says nothing)
        return {"violations": [], "digest": None, "skipped": "the misplaced contract is not part of the world", "stats": {}}
    run = _run_sync_quiet(scn["world"], [scn["ticket"]])
    o = run.outcomes.get("pl#0")
    v = o["verdict"] if o else None
    bodies = sum(1 for e in run.log if e[2] == "body" and e[4] == "pl#0")
    reached = any(e[3] == scn["site"] for e in run.log) or True
    violations = []
    ok = v is not None and v[0] == "exc" and v[1] == "ValueError"
    if not ok:
        violations.append({"rule": "C13.R3", "classifier": "%s:%s:%s" % (scn["role"], scn["style"], v[0] if v else "absent"), "detail": {"site": scn["site"], "verdict": v}})
    elif scn["role"] in ("pre", "snap") and bodies:
        violations.append({"rule": "C13.R3", "classifier": "%s:%s:body-entered" % (scn["role"], scn["style"]), "detail": {"site": scn["site"], "verdict": v}})
    return {
        "violations": violations,
        "digest": run.digest(),
        "nontrivial": {common.h64(("placement", scn["role"], scn["style"], "method" if scn["ticket"].get("obj") else "func"))},
        "stats": {"events": len(run.log), "probes": {"misplaced_async_contract_reached": 1}},
    }


def _run_sync_quiet(world, tickets):
    with warnings.catch_warnings():
        warnings.simplefilter("ignore")
        run = _run_sync(world, tickets)
        gc.collect()
    return run
