"""Helpers shared by the property modules."""
import asyncio
import contextvars
import hashlib
import json

import core
import simloop


def setup_objects(run, world_spec):
    """Construct the world's shared objects in a pristine context (actor ``setup``)."""
    objs = world_spec.get("objects") or []
    if not objs:
        return

    def go():
        run.enter_actor("setup")
        for o in objs:
            run.call({"id": "setup." + o["name"], "fn": "__init__", "op": "new", "cls": o["cls"], "obj": o["name"]})
            obj = run.world.objects.get(o["name"])
            if obj is None:
                raise core.HarnessError("set-up failed to construct " + o["name"])
            if o.get("flags"):
                obj._poke(o["flags"])

    contextvars.Context().run(go)


def apply_poke(run, td):
    """A state flip of shared objects through their non-public ``_poke`` (outside any contracted call)."""
    for oname, flags in sorted(td["poke"].items()):
        o = run.world.objects.get(oname)
        if o is not None:
            o._poke(flags)


def switch_signature(log):
    """The actor-switch sequence of a run (log projected to the actor column, runs collapsed)."""
    sig = []
    last = None
    for e in log:
        a = e[1]
        if a != last:
            sig.append(a)
            last = a
    return sig


def h64(obj):
    return int(hashlib.sha256(json.dumps(obj, sort_keys=True, default=str).encode()).hexdigest()[:15], 16)


def top_intervals(log):
    """(actor, unit, obj, start, end, xid) of every top-level call in the log."""
    open_ = {}
    res = []
    depth = {}
    for n, a, kind, sid, xid, detail in log:
        if kind == "call":
            d = depth.get(a, 0)
            depth[a] = d + 1
            if d == 0:
                open_[a] = (sid, detail, n, xid)
        elif kind == "return":
            d = depth.get(a, 1) - 1
            depth[a] = d
            if d == 0 and a in open_:
                u, o, s, x = open_.pop(a)
                res.append((a, u, o, s, n, x))
    return res


def sequential_verdicts_loop(world_spec, tickets):
    """Execute each ticket alone, in a pristine Context, as its own task on one SimLoop."""
    run = core.Run(world_spec)
    setup_objects(run, world_spec)

    async def one(td):
        run.enter_actor("seq")
        if run.world.is_async(td):
            await run.acall(td)
        else:
            run.call(td)

    async def main():
        loop = asyncio.get_running_loop()
        for td in tickets:
            if "poke" in td:
                apply_poke(run, td)
                continue
            t = loop.create_task(one(td), name="seq", context=contextvars.Context())
            await t

    simloop.run_in_loop(main, contextvars.Context())
    for c_ in run.handed:
        c_.close()
    return run


def sequential_verdicts_sync(world_spec, tickets):
    run = core.Run(world_spec)
    setup_objects(run, world_spec)

    def one(td):
        run.enter_actor("seq")
        run.call(td)

    for td in tickets:
        if "poke" in td:
            apply_poke(run, td)
            continue
        contextvars.Context().run(one, td)
    return run


def verdict_map(run):
    return {k: run.outcomes[k]["verdict"] for k in run.order}
