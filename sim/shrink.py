"""Scenario minimisation: greedy delta debugging over the scenario *data*.

A candidate is kept iff re-executing it (fresh world, fresh contexts, fresh loop/threads) yields a
violation of the same class (property rule + classifier).  No PRNG is involved.
"""
import copy
import re

LIST_KEYS = ("actors", "script", "nested", "history", "ops", "steps", "probes", "faulted")


def _walk(node, path=()):
    """Yield (path, node) for every dict/list node."""
    yield path, node
    if isinstance(node, dict):
        for k in sorted(node.keys()):
            v = node[k]
            if isinstance(v, (dict, list)):
                for x in _walk(v, path + (k,)):
                    yield x
    elif isinstance(node, list):
        for i, v in enumerate(node):
            if isinstance(v, (dict, list)):
                for x in _walk(v, path + (i,)):
                    yield x


def _get(root, path):
    n = root
    for p in path:
        n = n[p]
    return n


def _rename_sites(node, old, new):
    if isinstance(node, dict):
        s = node.get("sites")
        if isinstance(s, dict):
            for k in list(s.keys()):
                if k == old or k.startswith(old + "/"):
                    s[new + k[len(old):]] = s.pop(k)
        for v in node.values():
            _rename_sites(v, old, new)
    elif isinstance(node, list):
        for v in node:
            _rename_sites(v, old, new)


def _drop_site(node, sid):
    if isinstance(node, dict):
        s = node.get("sites")
        if isinstance(s, dict):
            for k in list(s.keys()):
                if k == sid or k.startswith(sid + "/"):
                    del s[k]
        for v in node.values():
            _drop_site(v, sid)
    elif isinstance(node, list):
        for v in node:
            _drop_site(v, sid)


def _contract_owners(world):
    """Yield (owner name, spec dict) for every unit spec that carries pre/post/snaps."""
    for f in world.get("funcs", ()):
        yield f["name"], f
    for c in world.get("classes", ()):
        if c.get("init") is not None:
            yield c["name"] + ".__init__", c["init"]
        for m in c.get("methods", ()):
            yield c["name"] + "." + m["name"], m


def candidates(scn):
    """Yield smaller variants of ``scn`` (deep copies), most aggressive first."""
    # 1. drop list elements
    nodes = [(p, n) for p, n in _walk(scn) if isinstance(n, list) and p and p[-1] in LIST_KEYS and len(n) > 0]
    for p, n in nodes:
        if len(n) > 1 and p[-1] in ("actors", "script", "history", "ops", "steps"):
            c = copy.deepcopy(scn)
            lst = _get(c, p)
            half = len(lst) // 2
            del lst[half:]
            yield c
            c = copy.deepcopy(scn)
            lst = _get(c, p)
            del lst[:half]
            yield c
    for p, n in nodes:
        for i in range(len(n) - 1, -1, -1):
            c = copy.deepcopy(scn)
            del _get(c, p)[i]
            yield c
    # 2. drop site configs, body configs, their parts
    for p, n in _walk(scn):
        if isinstance(n, dict) and p and p[-1] in ("sites",):
            for k in sorted(n.keys()):
                c = copy.deepcopy(scn)
                del _get(c, p)[k]
                yield c
                if isinstance(n[k], dict):
                    for kk in sorted(n[k].keys()):
                        c = copy.deepcopy(scn)
                        del _get(c, p)[k][kk]
                        yield c
        if isinstance(n, dict) and p and p[-1] == "body":
            for kk in sorted(n.keys()):
                c = copy.deepcopy(scn)
                del _get(c, p)[kk]
                yield c
        if isinstance(n, dict) and "flags" in n and n["flags"]:
            for kk in sorted(n["flags"].keys()):
                c = copy.deepcopy(scn)
                del _get(c, p)["flags"][kk]
                yield c
    # 3. zero pauses / scheduling choices
    for p, n in _walk(scn):
        if isinstance(n, list) and p and p[-1] == "pause":
            for i, d in enumerate(n):
                if d not in (None, 0):
                    c = copy.deepcopy(scn)
                    _get(c, p)[i] = 0
                    yield c
    ch = scn.get("choices")
    if isinstance(ch, list) and ch:
        c = copy.deepcopy(scn)
        c["choices"] = ch[: len(ch) // 2]
        yield c
        nz = [i for i, v in enumerate(ch) if v]
        for i in nz[:40]:
            c = copy.deepcopy(scn)
            c["choices"][i] = 0
            yield c
        while ch and ch[-1] == 0:
            ch = ch[:-1]
        if len(ch) != len(scn["choices"]):
            c = copy.deepcopy(scn)
            c["choices"] = list(ch)
            yield c
    # 4. simplify the world: drop contracts (renumbering the tickets' sites), styles, error forms
    w = scn.get("world")
    if isinstance(w, dict):
        for owner, spec in _contract_owners(w):
            for role in ("pre", "post", "snaps"):
                lst = spec.get(role) or []
                key = {"pre": "pre", "post": "post", "snaps": "snap"}[role]
                for i in range(len(lst) - 1, -1, -1):
                    c = copy.deepcopy(scn)
                    for o2, s2 in _contract_owners(c["world"]):
                        if o2 == owner:
                            del s2[role][i]
                    _drop_site(c, "%s/%s%d" % (owner, key, i))
                    for j in range(i + 1, len(lst)):
                        _rename_sites(c, "%s/%s%d" % (owner, key, j), "%s/%s%d" % (owner, key, j - 1))
                    yield c
                for i, cs in enumerate(lst):
                    for fld in ("error", "style"):
                        if cs.get(fld) not in (None, "default", "sync"):
                            c = copy.deepcopy(scn)
                            for o2, s2 in _contract_owners(c["world"]):
                                if o2 == owner:
                                    s2[role][i].pop(fld, None)
                            yield c
        for ci, cs in enumerate(w.get("classes", ())):
            invs = cs.get("invs") or []
            for i in range(len(invs) - 1, -1, -1):
                c = copy.deepcopy(scn)
                del c["world"]["classes"][ci]["invs"][i]
                _drop_site(c, "%s/inv%d" % (cs["name"], i))
                for j in range(i + 1, len(invs)):
                    _rename_sites(c, "%s/inv%d" % (cs["name"], j), "%s/inv%d" % (cs["name"], j - 1))
                    _rename_flags(c, "%s/inv%d" % (cs["name"], j), "%s/inv%d" % (cs["name"], j - 1))
                yield c
            for mi in range(len(cs.get("methods", ())) - 1, -1, -1):
                c = copy.deepcopy(scn)
                del c["world"]["classes"][ci]["methods"][mi]
                yield c
        for key in ("funcs", "classes", "objects"):
            lst = w.get(key) or []
            for i in range(len(lst) - 1, -1, -1):
                c = copy.deepcopy(scn)
                del c["world"][key][i]
                yield c
        for fi, f in enumerate(w.get("funcs", ())):
            if f.get("async"):
                pass


def _class_specs(node, path=()):
    """(path, spec) of every dict that looks like a class spec (has "name" and "invs"/"members"/"methods")."""
    if isinstance(node, dict):
        if "name" in node and any(k in node for k in ("invs", "members", "methods")) and not (path and path[-1] == "world"):
            yield path, node
        for k, v in node.items():
            if isinstance(v, (dict, list)) and k != "world":
                for x in _class_specs(v, path + (k,)):
                    yield x
    elif isinstance(node, list):
        for i, v in enumerate(node):
            for x in _class_specs(v, path + (i,)):
                yield x


def _drop_flag(node, sid):
    if isinstance(node, dict):
        for key in ("flags", "mutates"):
            d = node.get(key)
            if isinstance(d, dict) and sid in d:
                del d[sid]
        for v in node.values():
            _drop_flag(v, sid)
    elif isinstance(node, list):
        for v in node:
            _drop_flag(v, sid)


def class_candidates(scn):
    """Smaller variants obtained by simplifying class specs that live outside scn["world"] (C03 classes, history steps)."""
    for p, cs in list(_class_specs(scn)):
        for key in ("members", "methods"):
            lst = cs.get(key) or []
            for i in range(len(lst) - 1, -1, -1):
                c = copy.deepcopy(scn)
                del _get(c, p)[key][i]
                yield c
            for i, ms in enumerate(lst):
                for role in ("pre", "post", "snaps"):
                    sub = ms.get(role) or []
                    for j in range(len(sub) - 1, -1, -1):
                        c = copy.deepcopy(scn)
                        del _get(c, p)[key][i][role][j]
                        yield c
        invs = cs.get("invs") or []
        for i in range(len(invs) - 1, -1, -1):
            c = copy.deepcopy(scn)
            del _get(c, p)["invs"][i]
            name = cs["name"]
            _drop_flag(c, "%s/inv%d" % (name, i))
            for j in range(i + 1, len(invs)):
                _rename_flags(c, "%s/inv%d" % (name, j), "%s/inv%d" % (name, j - 1))
            yield c
        if cs.get("init") is not None and cs.get("base"):
            c = copy.deepcopy(scn)
            _get(c, p)["init"] = None
            yield c
        for fld in ("init_sets_attr", "bases2"):
            if cs.get(fld):
                c = copy.deepcopy(scn)
                _get(c, p).pop(fld)
                yield c
    cl = scn.get("classes")
    if isinstance(cl, list):
        for i in range(len(cl) - 1, -1, -1):
            c = copy.deepcopy(scn)
            del c["classes"][i]
            yield c


def _rename_flags(node, old, new):
    if isinstance(node, dict):
        for key in ("flags", "mutates"):
            s = node.get(key)
            if isinstance(s, dict) and old in s:
                s[new] = s.pop(old)
        for v in node.values():
            _rename_flags(v, old, new)
    elif isinstance(node, list):
        for v in node:
            _rename_flags(v, old, new)


def _all_candidates(scn):
    for c in candidates(scn):
        yield c
    for c in class_candidates(scn):
        yield c


def shrink(scn, same_class, budget=400):
    """Greedy fixpoint. ``same_class(candidate)`` -> bool executes the candidate."""
    cur = scn
    used = 0
    improved = True
    while improved and used < budget:
        improved = False
        for cand in _all_candidates(cur):
            if used >= budget:
                break
            used += 1
            try:
                ok = same_class(cand)
            except Exception:  # a candidate that is not a well-formed scenario is simply rejected
                ok = False
            if ok:
                cur = cand
                improved = True
                break
    return cur, used
