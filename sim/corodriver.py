"""Bare-coroutine driver: runs an async call without an event loop, so it can be stopped at the
p-th suspension and closed or have an exception thrown in there (what GC, `aclose()` of an outer
generator or a foreign scheduler does to a coroutine)."""


class Suspend:
    __slots__ = ("d",)

    def __init__(self, d):
        self.d = d

    def __await__(self):
        yield self


def sleep(d):
    return Suspend(d)


def drive(coro, plan=None, stats=None):
    """Drive ``coro`` by send(None). ``plan`` = {"p": n, "action": "close"|"throw", "exc": e}.

    Returns the coroutine's return value (the harness coroutine never raises except for caps).
    """
    n = 0
    while True:
        try:
            coro.send(None)
        except StopIteration as s:
            return s.value
        if plan is not None and n == plan["p"]:
            if stats is not None:
                stats[plan["action"]] = stats.get(plan["action"], 0) + 1
            plan["fired"] = True
            if plan.get("on_fire") is not None:
                plan["on_fire"]()
            if plan["action"] == "close":
                coro.close()
                return None
            try:
                coro.throw(plan["exc"])
            except StopIteration as s:
                return s.value
        n += 1
