"""A deterministic asyncio event loop: virtual clock, no selector, FIFO ready queue.

Tasks, futures, gather and cancellation are the real asyncio ones (C implementation); only the
selector and the clock are replaced.  When nothing is ready the clock jumps to the next timer;
when nothing is ready and no timer exists the loop raises ``Deadlock``.
"""
import asyncio
import asyncio.base_events


class Deadlock(Exception):
    pass


class _Selector:
    def __init__(self, loop):
        self._loop = loop

    def select(self, timeout=None):
        if timeout is None:
            if self._loop._stopping:
                return []
            raise Deadlock("no ready handle and no timer")
        if timeout > 0:
            self._loop._vt += timeout
            self._loop.jumps += 1
        return []

    def close(self):
        pass


class SimLoop(asyncio.base_events.BaseEventLoop):
    def __init__(self):
        super().__init__()
        self._vt = 0.0
        self.jumps = 0
        self._selector = _Selector(self)
        self._clock_resolution = 1e-9

    def time(self):
        return self._vt

    def _process_events(self, event_list):
        pass

    def _write_to_self(self):
        pass


def run_in_loop(main_factory, ctx=None):
    """Run ``main_factory()`` (a coroutine) to completion on a fresh SimLoop; returns (result, virtual time)."""
    loop = SimLoop()
    try:
        asyncio.events.set_event_loop(None)
        coro = main_factory()
        if ctx is not None:
            task = loop.create_task(coro, name="main", context=ctx)
        else:
            task = loop.create_task(coro, name="main")
        loop.run_until_complete(task)
        return task.result(), loop.time()
    finally:
        try:
            loop.close()
        finally:
            asyncio.events.set_event_loop(None)
